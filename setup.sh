#!/bin/bash
# Build the framework from files on disk only (offline): compile the two TLC module overrides
# and run the HPReal self-test against mpmath.
set -e
cd "$(dirname "$(readlink -f "$0")")"
javac -cp /opt/veriftools/tla/tla2tools.jar -d spec spec/HPReal.java spec/VerifIO.java
mkdir -p work evidence replays
python3-vt harness/gen_hpcases.py work/hpcases.json >/dev/null
mkdir -p work/jtmp-setup
HP_CASES=$PWD/work/hpcases.json java -Xmx1g -XX:+UseSerialGC -Djava.io.tmpdir=$PWD/work/jtmp-setup -DTLA-Library=$PWD/spec \
  -cp /opt/veriftools/tla/tla2tools.jar:/opt/veriftools/tla/CommunityModules-deps.jar tlc2.TLC \
  -metadir work/meta-setup -noGenerateSpecTE -nowarning -config spec/HPRealTest.cfg spec/HPRealTest.tla > work/setup.log 2>&1 \
  || { cat work/setup.log; echo "HPReal self-test FAILED"; exit 2; }
grep -q "No error has been found" work/setup.log || { cat work/setup.log; echo "HPReal self-test FAILED"; exit 2; }
rm -rf work/meta-setup work/jtmp-setup
echo "setup ok: overrides compiled, HPReal self-test passed"
