------------------------------- MODULE MC_Seq -------------------------------
(***************************************************************************)
(* Bounded instance of OpenSkill with multi-step behaviours: from a cast   *)
(* of three rating objects, any sequence (up to MaxDepth) of               *)
(*   rate on two- and three-team games with every outcome and per-call     *)
(*        option, the three predictions,                                   *)
(*   model.rating(...), create_rating([mu, sigma]) restoring a player from *)
(*        its stored values, copy.deepcopy, comparisons, the caller's      *)
(*        assignments to a rating, and the owner's reconfiguration of a    *)
(*        model (tau, limit_sigma, gamma, beta, kappa) between calls.      *)
(* Explored exhaustively to depth 2 and by simulation beyond; every        *)
(* behaviour is emitted as the sequence of its observations and replayed   *)
(* on LIVE objects of the real library (the heap evolves in the code as in *)
(* the specification).                                                     *)
(***************************************************************************)
EXTENDS OpenSkill

CONSTANTS Kind, EmitDepth,
          NWalks        \* 0: exhaustive; n > 0: n random walks (one successor per state, chosen with TLC!RandomElement)

VARIABLE hist          \* the observations of the behaviour so far (history variable, for emission only)

Beta0  == "4.166666666666667"
Sigma0 == "8.333333333333334"
MCModels == <<[id |-> 1, kind |-> Kind, mu |-> "25.0", sigma |-> Sigma0, beta |-> Beta0, kappa |-> "0.0001",
               tau |-> "0.08333333333333333", limit |-> "F", gamma |-> "default", extra |-> ""],
              [id |-> 2, kind |-> Kind, mu |-> "10.0", sigma |-> "2.0", beta |-> Beta0, kappa |-> "0.0001",
               tau |-> "3.0", limit |-> "T", gamma |-> "one", extra |-> ""]>>
MCCast == [r \in 1..3 |-> <<PRating(Kind, 1, "uid-1", "str", "ann", "25.0", Sigma0),
                            PRating(Kind, 2, "uid-2", "none", "", "30.5", "1.25"),
                            PRating(Kind, 3, "uid-3", "str", "cy", "-12.0", "4.0")>>[r]]

Own == {r \in DOMAIN heap : r <= 3}        \* games are played by the cast; other objects are copies and restored players
Single(r) == PList(<<RefLeaf(r)>>)
Games2 == {PList(<<Single(a), Single(b)>>) : a, b \in {x \in Own : TRUE}} \ {PList(<<Single(a), Single(a)>>) : a \in Own}
Games3 == {PList(<<Single(1), Single(2), Single(3)>>), PList(<<PList(<<RefLeaf(3), RefLeaf(1)>>), Single(2)>>)}
Outcomes(n) == IF n = 2 THEN {PNone, PList(<<PInt("0"), PInt("0")>>), PList(<<PFloat("2.0"), PInt("1")>>)}
               ELSE {PNone, PList(<<PInt("1"), PInt("0"), PInt("1")>>)}
Opts == {[tau |-> PNone, limit |-> PNone], [tau |-> PInt("0"), limit |-> PNone], [tau |-> PNone, limit |-> PBool(TRUE)]}

MCRateCalls(ms, h) ==
  {[m |-> m, teams |-> g, ranks |-> o, scores |-> PNone, tau |-> op.tau, limit |-> op.limit]
     : m \in 1..2, g \in Games2, o \in Outcomes(2), op \in Opts}
  \cup {[m |-> 3, teams |-> PList(<<Single(1), Single(2)>>), ranks |-> o, scores |-> PNone, tau |-> PNone, limit |-> PNone]
     : o \in IF Len(ms) >= 3 THEN {PNone, PList(<<PInt("0"), PInt("0")>>)} ELSE {}}
  \cup UNION {{[m |-> 1, teams |-> g, ranks |-> PNone, scores |-> o, tau |-> PNone, limit |-> PNone]
     : o \in Outcomes(Len(g.items))} : g \in Games3}
MCPredictCalls(ms, h) ==
  {[m |-> m, op |-> op, teams |-> g] : m \in 1..2, op \in {"win", "draw", "rank"}, g \in {PList(<<Single(1), Single(2)>>)} \cup Games3}
  \cup {[m |-> 3, op |-> op, teams |-> PList(<<Single(1), Single(2)>>)] : op \in IF Len(ms) >= 3 THEN {"win", "draw"} ELSE {}}
MCObjectCalls(ms, h) ==
  {[op |-> "rating", m |-> 1, mu |-> mu, sigma |-> PNone, name |-> PNone] : mu \in {PNone, PInt("0"), PFloat("-3.5")}}
  \cup {[op |-> "create", m |-> 1, arg |-> PList(<<PFloat(h[r].mu), PFloat(h[r].sigma)>>), name |-> PNone] : r \in {x \in Own : x <= 2}}
  \cup {[op |-> "create", m |-> 1, arg |-> PTuple(<<PInt("1"), PInt("2")>>), name |-> PNone]}
  \cup {[op |-> "deepcopy", arg |-> a] : a \in {RefLeaf(1), PList(<<Single(2), Single(3)>>)}}
  \cup {[op |-> "cmp", cmpop |-> c, a |-> RefLeaf(1), b |-> RefLeaf(2)] : c \in {"lt", "ge", "eq"}}
  \cup {[op |-> "cmp", cmpop |-> c, a |-> RefLeaf(2), b |-> PInt("3")] : c \in {"lt", "eq", "ne"}}
  \cup {[op |-> "assign", ref |-> 2, mu |-> "31.0", sigma |-> h[2].sigma], [op |-> "assign", ref |-> 1, mu |-> h[1].mu, sigma |-> "2.5"]}
  \* the owner reconfigures a model (whatever it has been used for): each value differs from the constructed one
  \cup {[op |-> "setattr", m |-> 1, attr |-> "tau", value |-> "1.5"], [op |-> "setattr", m |-> 2, attr |-> "tau", value |-> "0.0"],
        [op |-> "setattr", m |-> 1, attr |-> "limit", value |-> "T"], [op |-> "setattr", m |-> 2, attr |-> "gamma", value |-> "default"],
        [op |-> "setattr", m |-> 1, attr |-> "gamma", value |-> "big"], [op |-> "setattr", m |-> 1, attr |-> "beta", value |-> "2.0"],
        [op |-> "setattr", m |-> 2, attr |-> "kappa", value |-> "0.001"]}
  \* the program creates a third model object: all defaults; some arguments (ints and floats), the rest defaults; everything given
  \cup (IF Len(ms) >= 3 THEN {} ELSE
        {[op |-> "new_model", kind |-> Kind, args |-> a] :
           a \in {NoArgs,
                  [NoArgs EXCEPT !.mu = PInt("30"), !.tau = PInt("0")],
                  [NoArgs EXCEPT !.beta = PFloat("2.5"), !.kappa = PFloat("0.001"), !.limit = PBool(TRUE), !.gamma = PStr("one")],
                  [mu |-> PFloat("10.0"), sigma |-> PInt("2"), beta |-> PFloat("1.5"), kappa |-> PFloat("0.0005"), tau |-> PFloat("0.25"),
                   limit |-> PBool(FALSE), gamma |-> PStr("big")]}})

VARIABLE walk          \* index of the random walk (0 in exhaustive mode)

\* one randomly chosen call: a state then has a single successor, so a walk costs one evaluation per step
\* (TLC's own -simulate evaluates every successor of every visited state, hundreds of rate calls per step)
RandomStep ==
  LET cat == RandomElement({"rate", "rate", "predict", "object"})
  IN  CASE cat = "rate"    -> \E d \in {RandomElement(MCRateCalls(models, heap))} : Rate(d)
        [] cat = "predict" -> \E d \in {RandomElement(MCPredictCalls(models, heap))} : Predict(d)
        [] OTHER           -> \E d \in {RandomElement(MCObjectCalls(models, heap))} :
                                 CASE d.op = "rating"   -> NewRating(d)
                                   [] d.op = "create"   -> CreateRating(d)
                                   [] d.op = "deepcopy" -> DeepCopy(d)
                                   [] d.op = "cmp"      -> Compare(d)
                                   [] d.op = "assign"   -> Assign(d)
                                   [] d.op = "setattr"  -> Reconfigure(d)
                                   [] d.op = "new_model" -> NewModel(d)

SInit == Init /\ hist = <<>> /\ walk \in (IF NWalks = 0 THEN {0} ELSE 1..NWalks)
SNext == (IF NWalks = 0 THEN Next ELSE RandomStep) /\ hist' = Append(hist, DropX(last')) /\ UNCHANGED walk
SSpec == SInit /\ [][SNext]_<<vars, hist, walk>>

\* every complete prefix is emitted once, as a JSON array of observations
EmitHist == depth < 1 \/ depth > EmitDepth \/ (NWalks > 0 /\ depth < EmitDepth) \/ EmitLine(EmitFile, ToJson(hist))

\* in every reachable state the heap holds exactly what the last observation left for the objects it touched
HeapFollowsLast == last.op = "rate" /\ Ok(last) => \A x \in Leaves(last.after) : heap[x.ref] = x
=============================================================================
