----------------------------- MODULE MC_Grammar -----------------------------
(***************************************************************************)
(* Bounded instance for property C13: starting from valid calls over the   *)
(* cast, TLC substitutes every value of a bad-value set at every position  *)
(* of teams, ranks and scores (containers, teams, players, elements), and  *)
(* adds wrong lengths, too few teams, empty teams and both selectors, for  *)
(* the four operations and the five model kinds.  Whether a substituted    *)
(* call is malformed is decided by PyVal!WFRateCall - the substitution     *)
(* includes well-formed values (ints, floats, bools, negative, -0.0).      *)
(***************************************************************************)
EXTENDS OpenSkill

CONSTANTS KindSet, Shapes      \* Shapes: set of team-size sequences given as strings, see BaseGames

VARIABLE pend

KindSeq == <<"PL", "BTF", "BTP", "TMF", "TMP">>
Beta0  == "4.166666666666667"
Sigma0 == "8.333333333333334"
MCModels == [m \in 1..5 |-> [id |-> m, kind |-> KindSeq[m], mu |-> "25.0", sigma |-> Sigma0, beta |-> Beta0, kappa |-> "0.0001",
                             tau |-> "0.08333333333333333", limit |-> "F", gamma |-> "default", extra |-> ""]]
CastSize == 4
CastOf(kind, base) == <<
  PRating(kind, base + 1, "uid-" \o ToString(base + 1), "str",  "ann", "25.0",  Sigma0),
  PRating(kind, base + 2, "uid-" \o ToString(base + 2), "none", "",    "30.5",  "1.25"),
  PRating(kind, base + 3, "uid-" \o ToString(base + 3), "str",  "cy",  "-12.0", "4.0"),
  PRating(kind, base + 4, "uid-" \o ToString(base + 4), "str",  "dee", "20.0",  "6.5") >>
MCCast == [r \in 1..(5 * CastSize) |-> CastOf(KindSeq[((r - 1) \div CastSize) + 1], ((r - 1) \div CastSize) * CastSize)[((r - 1) % CastSize) + 1]]

L(r) == RefLeaf(r)
\* base games over a kind's cast (b = first ref - 1)
BaseGame(shape, b) ==
  CASE shape = "1-1"   -> PList(<<PList(<<L(b + 1)>>), PList(<<L(b + 2)>>)>>)
    [] shape = "2-1"   -> PList(<<PList(<<L(b + 1), L(b + 2)>>), PList(<<L(b + 3)>>)>>)
    [] shape = "1-1-2" -> PList(<<PList(<<L(b + 1)>>), PList(<<L(b + 2)>>), PList(<<L(b + 3), L(b + 4)>>)>>)
NTeams(shape) == IF shape = "1-1-2" THEN 3 ELSE 2

\* the values substituted (foreign: a rating of the next model kind; own: a rating of this kind)
Bad(b, fb) == <<PNone, PInt("3"), PFloat("2.5"), PStr("abc"), PTuple(<<PInt("1"), PInt("2")>>), PV("dict", ""), PV("set", ""),
                PV("obj", "object"), PList(<<>>), PList(<<PList(<<PInt("1")>>), PList(<<PInt("2")>>)>>), L(fb + 1), L(b + 4),
                PList(<<L(b + 4)>>), PBool(TRUE), PInt("-2"), PFloat("-0.0"), PFloat("1e+16"),
                PV("numlike", "2"), PV("numlike", "1"), PV("numlike", "0"),       \* Decimal objects equal to an element of DefaultSel
                PStr("2"), PStr("7.5")>>                                           \* strings a float() would parse
NBad == 22

RECURSIVE Subst(_, _, _)
Subst(p, path, val) == IF path = <<>> THEN val
                       ELSE [p EXCEPT !.items = [@ EXCEPT ![Head(path)] = Subst(@, Tail(path), val)]]

RECURSIVE Paths(_)
Paths(p) == {<<>>} \cup (IF p.t \in {"list", "tuple"} THEN UNION {{<<k>> \o q : q \in Paths(p.items[k])} : k \in 1..Len(p.items)} ELSE {})

DefaultSel(n) == PList([i \in 1..n |-> PInt(ToString((i * 2) % 3))])

\* pending = <<kind index, shape, what, path, bad index>>
Ops == {"rate", "win", "draw", "rank"}
Variants == {"one_team", "no_team", "empty_last", "empty_first", "ranks_short", "ranks_long", "scores_short", "scores_long",
             "both", "both_scores_bad", "ranks_bools", "scores_negs", "ranks_zeros", "ok_plain", "ok_ranks", "ok_scores",
             \* an empty list is "not given": beside a given selector, beside another empty one, beside an explicit None
             "ranks_empty_scores_ok", "scores_empty_ranks_ok", "both_empty", "ranks_empty_scores_bad", "scores_empty_ranks_bad"}
\* every team replaced at once: a flat list of players (a "free for all" written without the inner lists), tuples, ...
WholeVariants == {"flat", "flat_tuple", "all_tuples", "all_foreign", "all_none", "all_numbers", "deeper"}
RECURSIVE FlatItems(_)
FlatItems(ts) == IF ts = <<>> THEN <<>> ELSE Head(ts).items \o FlatItems(Tail(ts))
Pending ==
  UNION {UNION {
     LET b == (ki - 1) * CastSize
         g == BaseGame(sh, b)
         n == NTeams(sh)
     IN  {<<ki, sh, op, "teams", path, k>> : op \in Ops, path \in Paths(g), k \in 1..NBad}
         \cup {<<ki, sh, "rate", sel, path, k>> : sel \in {"ranks", "scores"}, path \in Paths(DefaultSel(n)), k \in 1..NBad}
         \cup {<<ki, sh, op, v, <<>>, 0>> : op \in Ops, v \in {"one_team", "no_team", "empty_last", "empty_first", "ok_plain",
                                                                 "empty_then_tuple", "tuple_then_empty", "empty_then_foreign", "foreign_then_empty", "empty_then_none"}
                                                                 \cup WholeVariants}
         \cup {<<ki, sh, "rate", v, <<>>, 0>> : v \in Variants}
     : sh \in Shapes} : ki \in {k \in 1..5 : KindSeq[k] \in KindSet}}

CallOf(p) ==
  LET ki == p[1]  sh == p[2]  op == p[3]  what == p[4]  path == p[5]  k == p[6]
      b  == (ki - 1) * CastSize
      fb == (ki % 5) * CastSize
      g  == BaseGame(sh, b)
      n  == NTeams(sh)
      sel == DefaultSel(n)
      teams == CASE what = "teams"       -> Subst(g, path, Bad(b, fb)[k])
                 [] what = "one_team"    -> PList(<<g.items[1]>>)
                 [] what = "no_team"     -> PList(<<>>)
                 [] what = "empty_last"  -> [g EXCEPT !.items[n] = PList(<<>>)]
                 [] what = "empty_first" -> [g EXCEPT !.items[1] = PList(<<>>)]
                 \* two faults in one call: which is reported first must not depend on the model class (C19)
                 [] what = "empty_then_tuple"   -> [g EXCEPT !.items[1] = PList(<<>>), !.items[2] = PTuple(g.items[2].items)]
                 [] what = "tuple_then_empty"   -> [g EXCEPT !.items[1] = PTuple(g.items[1].items), !.items[2] = PList(<<>>)]
                 [] what = "empty_then_foreign" -> [g EXCEPT !.items[1] = PList(<<>>), !.items[2] = PList(<<L(fb + 1)>>)]
                 [] what = "foreign_then_empty" -> [g EXCEPT !.items[1] = PList(<<L(fb + 1)>>), !.items[2] = PList(<<>>)]
                 [] what = "empty_then_none"    -> PList(<<g.items[1], PList(<<>>), PNone>> \o SubSeq(g.items, 2, n))
                 [] what = "flat"        -> PList(FlatItems(g.items))
                 [] what = "flat_tuple"  -> PTuple(FlatItems(g.items))
                 [] what = "all_tuples"  -> PList([i \in 1..n |-> PTuple(g.items[i].items)])
                 [] what = "all_foreign" -> PList([i \in 1..n |-> PList(<<L(fb + i)>>)])
                 [] what = "all_none"    -> PList([i \in 1..n |-> PNone])
                 [] what = "all_numbers" -> PList([i \in 1..n |-> PFloat(ToString(i) \o ".0")])
                 [] what = "deeper"      -> PList([i \in 1..n |-> PList(<<g.items[i]>>)])
                 [] OTHER -> g
      ranks == CASE what = "ranks"        -> Subst(sel, path, Bad(b, fb)[k])
                 [] what = "ranks_short"  -> PList(SubSeq(sel.items, 1, n - 1))
                 [] what = "ranks_long"   -> PList(Append(sel.items, PInt("1")))
                 [] what \in {"both", "both_scores_bad", "ok_ranks", "scores_empty_ranks_ok"} -> sel
                 [] what \in {"ranks_empty_scores_ok", "both_empty", "ranks_empty_scores_bad"} -> PList(<<>>)
                 [] what = "scores_empty_ranks_bad" -> PList(SubSeq(sel.items, 1, n - 1))
                 [] what = "ranks_bools"  -> PList([i \in 1..n |-> PBool(i % 2 = 0)])
                 [] what = "ranks_zeros"  -> PList([i \in 1..n |-> IF i % 2 = 0 THEN PInt("0") ELSE PFloat("-0.0")])
                 [] what = "teams" /\ k % 2 = 0 -> sel
                 [] OTHER -> PNone
      scores == CASE what = "scores"       -> Subst(sel, path, Bad(b, fb)[k])
                  [] what = "scores_short" -> PList(SubSeq(sel.items, 1, n - 1))
                  [] what = "scores_long"  -> PList(Append(sel.items, PInt("1")))
                  [] what \in {"both", "ok_scores", "ranks_empty_scores_ok"} -> sel
                  [] what \in {"scores_empty_ranks_ok", "both_empty", "scores_empty_ranks_bad"} -> PList(<<>>)
                  [] what = "ranks_empty_scores_bad" -> PList(Append(sel.items, PStr("x")))
                  [] what = "both_scores_bad" -> PStr("abc")
                  [] what = "scores_negs"  -> PList([i \in 1..n |-> PInt(ToString(0 - i))])
                  [] OTHER -> PNone
      \* what a call does before it has looked at its arguments may depend on its options: every third substitution with limit_sigma
      limit == IF what = "teams" /\ op = "rate" /\ k % 3 = 0 THEN PBool(TRUE) ELSE PNone
  IN  [m |-> ki, op |-> op, teams |-> teams, ranks |-> ranks, scores |-> scores, tau |-> PNone, limit |-> limit]

\* falsy non-list selectors are treated by the library as omitted; the property does not speak about them
Unspecified(c) == \/ (c.ranks.t \in {"float", "int", "numlike"} /\ RIsReal(c.ranks.v) /\ RIsZero(c.ranks.v))
                  \/ (c.scores.t \in {"float", "int", "numlike"} /\ RIsReal(c.scores.v) /\ RIsZero(c.scores.v))

MCInit == Init /\ pend \in {p \in Pending : ~Unspecified(CallOf(p))}
MCNext == LET c == CallOf(pend) IN (IF c.op = "rate" THEN Rate(c) ELSE Predict(c)) /\ UNCHANGED pend
MCSpec == MCInit /\ [][MCNext]_<<vars, pend>>
NoCalls(ms, h) == {}

\* every malformed call of the grammar is rejected without effect, every well-formed one accepted - in the design
Inv_Grammar == last.op # "init" =>
  LET wf == IF last.op = "rate" THEN WFRateCall(last.model.kind, Call(last)) ELSE WFTeams(last.model.kind, last.teams)
  IN  (wf <=> Ok(last)) /\ (~wf => last.after = last.teams /\ heap = Cast /\ models = Models)
=============================================================================
