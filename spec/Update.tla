------------------------------- MODULE Update -------------------------------
(***************************************************************************)
(* The five Weng-Lin update rules (JMLR 12, 2011, Algorithms 1-4) with the *)
(* documented extensions: prior variance inflated by tau, team skill =     *)
(* sum of members, member share proportional to own variance, variance     *)
(* factor floored at kappa, variance step scaled by a gamma callback,      *)
(* optional limit_sigma clamp.                                             *)
(*                                                                         *)
(* Written as sums over sets of teams from the paper, not as the code's    *)
(* loops; numbers are HPReal (40 digits), so this module has no rounding   *)
(* behaviour of its own.  Next to each value it computes a first-order     *)
(* error budget for an IEEE-double evaluation of the same rule (DESIGN 5). *)
(*                                                                         *)
(*   kind   "PL" | "BTF" | "BTP" | "TMF" | "TMP"                           *)
(*   P      [beta, kappa, gamma]   gamma is the *name* of a callback       *)
(*   T      <<team_1, ..>>, team = <<[mu, sigma], ..>>, in input order     *)
(*   vals   outcome values in input order (Outcome.tla)                    *)
(*   tau    effective tau;  limit: BOOLEAN, effective limit_sigma          *)
(***************************************************************************)
EXTENDS HPReal, Kernels, FiniteSets, SequencesExt

CONSTANT FloatRankUsesIndex
INSTANCE Outcome

Rel   == "1E-9"       \* floating-point accuracy demanded by C01
Ulp4  == "1E-15"      \* a few ulp, for the inputs' own rounding

Kinds == {"PL", "BTF", "BTP", "TMF", "TMP"}
IsPart(kind) == kind \in {"BTP", "TMP"}
IsTM(kind)   == kind \in {"TMF", "TMP"}

Mat(f) == f \o <<>>      \* materialise a sequence-valued function (TLC evaluates lazily otherwise)

---------------------------------------------------------------------------
\* gamma callbacks: a closed, named set (the code accepts any callable)
Gamma(name, beta, c, k, mu, s2, size, rank) ==
  CASE name = "default" -> RSqrt(s2) // c
    [] name = "one"     -> "1"
    [] name = "zero"    -> "0"
    [] name = "big"     -> "50"
    [] name = "probe"   -> "0.01" ++ ("0.001" ** (c // beta)) ++ ("0.01" ** RNorm(k))
                           ++ ("0.001" ** (RAbs(mu) // beta)) ++ ("0.0001" ** (s2 // RSq(beta)))
                           ++ ("0.1" ** RNorm(size)) ++ ("0.05" ** RNorm(rank))

---------------------------------------------------------------------------
\* team aggregates after tau inflation
S2(T, tau)  == Mat([i \in Idx(T) |-> Mat([j \in Idx(T[i]) |-> RSq(T[i][j].sigma) ++ RSq(tau)])])
Agg(T, s2)  == Mat([i \in Idx(T) |->
                  [mu   |-> RSumSeq(Mat([j \in Idx(T[i]) |-> T[i][j].mu])),
                   amu  |-> RSumAbsSeq(Mat([j \in Idx(T[i]) |-> T[i][j].mu])),
                   s2   |-> RSumSeq(s2[i]),
                   size |-> Len(T[i])]])

\* a contribution to (omega, delta) with budgets
Term(o, ob, d, db, g) == [o |-> o, ob |-> ob, d |-> d, db |-> db, g |-> g]

Cmp(vals, i, q) == IF ValLt(vals[i], vals[q]) THEN "win" ELSE IF ValLt(vals[q], vals[i]) THEN "loss" ELSE "tie"

---------------------------------------------------------------------------
\* scale of the pair (i, q); TMPartDoubleC: the partial-pairing Thurstone-Mosteller model doubles it
C0(P, A, i, q) == RSqrt(A[i].s2 ++ A[q].s2 ++ R2(RSq(P.beta)))
PairC(kind, P, A, i, q) == IF kind = "TMP" THEN R2(C0(P, A, i, q)) ELSE C0(P, A, i, q)

\* Bradley-Terry, one opponent q of team i
BTPair(P, A, vals, cr, i, q) ==
  LET ciq  == C0(P, A, i, q)
      p    == "1" // ("1" ++ RExp((A[q].mu -- A[i].mu) // ciq))
      cm   == Cmp(vals, i, q)
      s    == IF cm = "win" THEN "1" ELSE IF cm = "tie" THEN "0.5" ELSE "0"
      coef == A[i].s2 // ciq
      g    == Gamma(P.gamma, P.beta, ciq, Len(vals), A[i].mu, A[i].s2, A[i].size, cr[i])
      ex   == Ulp4 ** ((A[i].amu ++ A[q].amu) // ciq)           \* rounding of the exponent's argument
      dco  == (g ** coef) // ciq
  IN  Term(coef ** (s -- p), coef ** ((Rel ** (s ++ p)) ++ ex),
           dco ** (p ** ("1" -- p)), dco ** ((Rel ** (p ** ("1" ++ p))) ++ ex), FALSE)

\* Thurstone-Mosteller, one opponent q of team i
TMPair(kind, P, A, vals, cr, i, q) ==
  LET ciq  == PairC(kind, P, A, i, q)
      x    == (A[i].mu -- A[q].mu) // ciq
      t    == P.kappa // ciq
      cm   == Cmp(vals, i, q)
      coef == A[i].s2 // ciq
      g    == Gamma(P.gamma, P.beta, ciq, Len(vals), A[i].mu, A[i].s2, A[i].size, cr[i])
      ex   == Ulp4 ** ((A[i].amu ++ A[q].amu) // ciq)
      dco  == (g ** coef) // ciq
      kv   == IF cm = "win" THEN VDoc(x, t) ELSE IF cm = "loss" THEN VDoc(RNeg(x), t) ELSE VtDoc(x, t)
      kw   == IF cm = "win" THEN WDoc(x, t) ELSE IF cm = "loss" THEN WDoc(RNeg(x), t) ELSE WtDoc(x, t)
      sgn  == IF cm = "loss" THEN "-1" ELSE "1"
      \* The documented form of V~ (-x - t for x < 0, -x + t otherwise) jumps by 2t at x = 0.  When two tied teams' totals
      \* agree up to the rounding of their sums (the same roster summed in another order), the doubles decide the side and the
      \* specification's 40 digits may decide otherwise: either side is the documented form, so the jump is part of the budget
      \* (the form's stated error, C17: within 2t of the exact V~, which is continuous there).
      sj   == IF cm = "tie" /\ RLeq(RAbs(A[i].mu -- A[q].mu), "4" ** (Ulp4 ** (A[i].amu ++ A[q].amu))) THEN R2(t) ELSE "0"
  IN  Term(sgn ** (coef ** kv.v), coef ** ((Rel ** kv.m) ++ kv.n ++ ex ++ sj),
           dco ** kw.v, dco ** ((Rel ** kw.m) ++ kw.n ++ R2(RAbs(x) ++ "2") ** ex), kv.g \/ kw.g)

\* opponents of team i
Opp(kind, vals, i) == IF IsPart(kind) THEN Ladder(vals, i) ELSE Idx(vals) \ {i}

\* field fld of every term of a materialised sequence of terms
Fld(F, fld) == Mat([k \in 1..Len(F) |-> F[k][fld]])

PairwiseOD(kind, P, A, vals, cr, i) ==
  LET qs == SetToSeq(Opp(kind, vals, i))
      F  == Mat([k \in 1..Len(qs) |-> IF IsTM(kind) THEN TMPair(kind, P, A, vals, cr, i, qs[k])
                                                     ELSE BTPair(P, A, vals, cr, i, qs[k])])
  IN  [omega |-> RSumSeq(Fld(F, "o")), ob |-> RSumSeq(Fld(F, "ob")),
       delta |-> RSumSeq(Fld(F, "d")), db |-> RSumSeq(Fld(F, "db")),
       g |-> \E k \in 1..Len(F) : F[k].g]

---------------------------------------------------------------------------
\* Plackett-Luce
PLc(P, A)          == RSqrt(RSumSeq(Mat([i \in Idx(A) |-> A[i].s2 ++ RSq(P.beta)])))
PLe(A, c)          == Mat([i \in Idx(A) |-> RExp(A[i].mu // c)])
PLSumQ(A, vals, e) == Mat([q \in Idx(A) |-> RSumSet({s \in Idx(A) : ~ValLt(vals[s], vals[q])}, e)])

PLAll(P, A, vals, cr) ==
  LET N    == Idx(vals)
      c    == PLc(P, A)
      e    == PLe(A, c)
      sumq == PLSumQ(A, vals, e)
      a    == TieSize(vals)
      OD(i) ==
        LET qs  == SetToSeq({q \in N : ~ValLt(vals[i], vals[q])})   \* teams ranked no worse than i
            KK  == 1..Len(qs)
            r   == Mat([k \in KK |-> e[i] // sumq[qs[k]]])
            own == Mat([k \in KK |-> IF qs[k] = i THEN "1" ELSE "0"])
            an  == Mat([k \in KK |-> RNorm(a[qs[k]])])
            oT  == Mat([k \in KK |-> (own[k] -- r[k]) // an[k]])
            oB  == Mat([k \in KK |-> (own[k] ++ r[k]) // an[k]])
            dT  == Mat([k \in KK |-> (r[k] ** ("1" -- r[k])) // an[k]])
            dB  == Mat([k \in KK |-> (r[k] ** ("1" ++ r[k])) // an[k]])
            g   == Gamma(P.gamma, P.beta, c, Len(vals), A[i].mu, A[i].s2, A[i].size, cr[i])
            ex  == Ulp4 ** (A[i].amu // c)
            k1  == A[i].s2 // c
            k2  == (g ** A[i].s2) // RSq(c)
        IN  [omega |-> k1 ** RSumSeq(oT), ob |-> k1 ** ((Rel ++ ex) ** RSumSeq(oB)),
             delta |-> k2 ** RSumSeq(dT), db |-> k2 ** ((Rel ++ ex) ** RSumSeq(dB)),
             g |-> FALSE]
  IN  Mat([i \in N |-> OD(i)])

\* (omega, delta) with budgets for every team
TeamOD(kind, P, A, vals) ==
  LET cr == CompRank(vals)
  IN  IF kind = "PL" THEN PLAll(P, A, vals, cr)
      ELSE Mat([i \in Idx(vals) |-> PairwiseOD(kind, P, A, vals, cr, i)])

---------------------------------------------------------------------------
\* per-player posterior
Floor(x, kappa) == RSqrt(RMax(x, kappa))

Player(prior, s2ij, agg, od, kappa, limit) ==
  LET share == s2ij // agg.s2
      s     == RSqrt(s2ij)                               \* inflated sigma
      mu    == prior.mu ++ (share ** od.omega)
      tmu   == (Rel ** (RAbs(prior.mu) ++ (share ** RAbs(od.omega)))) ++ R2(share ** od.ob)
      \* accuracy of the STEP alone (what the zero-sum identity is about): relative to the step, not to the rating
      tstep == (Rel ** (share ** RAbs(od.omega))) ++ R2(share ** od.ob)
      sd    == share ** od.delta
      sb    == (share ** od.db) ++ (Ulp4 ** ("1" ++ RAbs(sd)))
      x     == "1" -- sd
      sg    == s ** Floor(x, kappa)
      lo    == s ** Floor(x -- sb, kappa)
      hi    == s ** Floor(x ++ sb, kappa)
      tsg   == (Rel ** sg) ++ RMax(hi -- sg, sg -- lo)
      clamp == limit /\ RLt(prior.sigma, sg)
  IN  [mu |-> mu, sigma |-> IF clamp THEN prior.sigma ELSE sg,
       tmu |-> tmu, tstep |-> tstep, tsigma |-> tsg,
       floor |-> RLeq(x, kappa), clamp |-> clamp, guard |-> od.g,
       dmu |-> share ** od.omega, s2 |-> s2ij]

RateFn(kind, P, T, vals, tau, limit) ==
  LET s2 == S2(T, tau)
      A  == Agg(T, s2)
      od == TeamOD(kind, P, A, vals)
  IN  Mat([i \in Idx(T) |-> Mat([j \in Idx(T[i]) |->
            Player(T[i][j], s2[i][j], A[i], od[i], P.kappa, limit)])])

\* team-level view, for the relational properties
TeamView(kind, P, T, vals, tau) ==
  LET s2 == S2(T, tau)
      A  == Agg(T, s2)
  IN  [agg |-> A, od |-> TeamOD(kind, P, A, vals)]
=============================================================================
