---------------------------- MODULE TraceThreads ----------------------------
(***************************************************************************)
(* Trace specification for executions of real threads on a shared,         *)
(* instrumented model object (harness/sched.py).  One JSON object per      *)
(* event, totally ordered by the scheduler's sequence number:              *)
(*   {x: execution id, th: thread, ev: "reset"|"begin"|"read"|"write"|     *)
(*    "end", attr, value, arg, constructed: {attr: value}}                 *)
(* Each event must be a step of Threads.tla: a read returns the value the  *)
(* model was constructed with, and "write" has NO matching action when     *)
(* LimitSigmaWriteBack = FALSE - any write to the shared model, even one   *)
(* that is restored before the call returns, is a rejected event.          *)
(* Verdicts are total: a rejected event is printed and the trace goes on.  *)
(***************************************************************************)
EXTENDS Naturals, Sequences, TLC, Json, IOUtils

Trace == ndJsonDeserialize(IOEnv.TRACE_FILE)

VARIABLES l, cons, pc
ttvars == <<l, cons, pc>>

Init == l = 1 /\ cons = [limit |-> "?"] /\ pc = [t \in {} |-> "idle"]

PcOf(t) == IF t \in DOMAIN pc THEN pc[t] ELSE "idle"

Verdict(e) ==
  CASE e.ev = "begin" -> IF PcOf(e.th) = "idle" THEN {} ELSE {"bind.thread_begin_twice"}
    [] e.ev = "read"  -> (IF PcOf(e.th) = "running" THEN {} ELSE {"bind.read_outside_call"})
                         \cup (IF e.attr \in DOMAIN cons /\ cons[e.attr] = e.value THEN {}
                               ELSE {"C14.thread_read_not_constructed_value:" \o e.attr})
    [] e.ev = "write" -> {"C14.thread_write_to_model:" \o e.attr}
    \* the outcome list several callers pass (SharedArgs.tla has no action that writes it): any mutating operation, even one
    \* that leaves the same weak order or is undone before the call returns
    [] e.ev = "argwrite" -> {"C14.thread_write_to_shared_argument:" \o e.value}
    [] e.ev = "end"   -> IF PcOf(e.th) = "running" THEN {} ELSE {"bind.end_outside_call"}
    [] OTHER -> {"bind.unknown_event"}

Step == /\ l <= Len(Trace)
        /\ LET e == Trace[l]
           IN  IF e.ev = "reset"
                 THEN /\ cons' = e.constructed /\ pc' = [t \in {} |-> "idle"] /\ l' = l + 1
                 ELSE /\ PrintT(<<"TV", l, e.x, Verdict(e)>>)
                      /\ cons' = cons
                      /\ pc' = [t \in (DOMAIN pc) \cup {e.th} |->
                                  IF t = e.th THEN (IF e.ev = "begin" THEN "running" ELSE IF e.ev = "end" THEN "idle" ELSE PcOf(t))
                                  ELSE pc[t]]
                      /\ l' = l + 1
Done == l > Len(Trace) /\ UNCHANGED ttvars
Next == Step \/ Done
Spec == Init /\ [][Next]_ttvars

AllConsumed == TLCSet(1, l)
Accepted == TLCGet(1) = Len(Trace) + 1
=============================================================================
