---------------------------- MODULE ThreadsProof ----------------------------
(***************************************************************************)
(* TLAPS proof, for ANY number of threads and reads, that without the      *)
(* repaired defect no step of Threads.tla changes the shared model and     *)
(* every finished call resolved the option it would resolve alone.         *)
(***************************************************************************)
EXTENDS Threads, TLAPS

ASSUME NoWriteBack == LimitSigmaWriteBack = FALSE
ASSUME ConstructedOK == Constructed.limit \in STRING

\* inductive invariant: the model is as constructed, and what a call has seen of limit is the constructed value
Inv == /\ model = Constructed
       /\ \A t \in Threads : /\ ts[t].seen \in {"unread", Constructed.limit}
                             /\ (ts[t].pc = "done" => ts[t].res = (IF ts[t].arg = "none" THEN Constructed.limit ELSE ts[t].arg))

TypeOK == ts \in [Threads -> [pc : {"idle", "running", "done"}, arg : Args, reads : Nat, seen : STRING, wrote : BOOLEAN, res : STRING]]

THEOREM StepKeepsModel == ASSUME TNext PROVE model' = model
  <1>1. ASSUME NEW t \in Threads, NEW arg \in Args, Begin(t, arg) PROVE model' = model  BY <1>1 DEF Begin
  <1>2. ASSUME NEW t \in Threads, NEW a \in Attrs, Read(t, a) PROVE model' = model  BY <1>2 DEF Read
  <1>3. ASSUME NEW t \in Threads, Write(t) PROVE model' = model  BY <1>3, NoWriteBack DEF Write
  <1>4. ASSUME NEW t \in Threads, End(t) PROVE model' = model  BY <1>4 DEF End
  <1> QED BY <1>1, <1>2, <1>3, <1>4 DEF TNext

THEOREM ReadOnly == TSpec => ModelReadOnly
  <1>1. [TNext]_tvars => [model' = model]_tvars  BY StepKeepsModel DEF tvars
  <1> QED BY <1>1, PTL DEF TSpec, ModelReadOnly

TS == [pc : STRING, arg : STRING, reads : Nat, seen : STRING, wrote : BOOLEAN, res : STRING]
IInv == /\ model = Constructed
        /\ ts \in [Threads -> TS]
        /\ \A t \in Threads : /\ ts[t].seen \in {"unread", Constructed.limit}
                              /\ (ts[t].pc = "done" => ts[t].res = (IF ts[t].arg = "none" THEN Constructed.limit ELSE ts[t].arg))
                              /\ (ts[t].pc = "idle" => ts[t].seen = "unread")

LEMMA InitInv == TInit => IInv
  BY DEF TInit, IInv, Idle, TS

LEMMA StepInv == ASSUME IInv, [TNext]_tvars PROVE IInv'
  <1>0. CASE UNCHANGED tvars  BY <1>0 DEF IInv, tvars
  <1>1. ASSUME NEW t \in Threads, NEW arg \in Args, Begin(t, arg) PROVE IInv'
        BY <1>1 DEF Begin, IInv, Idle, TS, Args
  <1>2. ASSUME NEW t \in Threads, NEW a \in Attrs, Read(t, a) PROVE IInv'
        <2>1. model.limit = Constructed.limit  BY DEF IInv
        <2>2. ts' \in [Threads -> TS]  BY <1>2, <2>1, ConstructedOK DEF Read, IInv, TS
        <2> QED BY <1>2, <2>1, <2>2 DEF Read, IInv, TS
  <1>3. ASSUME NEW t \in Threads, Write(t) PROVE IInv'
        BY <1>3, NoWriteBack DEF Write
  <1>4. ASSUME NEW t \in Threads, End(t) PROVE IInv'
        <2>2. ts' \in [Threads -> TS]  BY <1>4, NoWriteBack DEF End, CanEnd, IInv, TS
        <2> QED BY <1>4, <2>2, NoWriteBack DEF End, CanEnd, IInv, TS
  <1> QED BY <1>0, <1>1, <1>2, <1>3, <1>4 DEF TNext

THEOREM Sequential == TSpec => []ResultIsSequential
  <1>1. IInv => ResultIsSequential  BY DEF IInv, ResultIsSequential
  <1> QED BY InitInv, StepInv, <1>1, PTL DEF TSpec
=============================================================================
