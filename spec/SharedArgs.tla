----------------------------- MODULE SharedArgs -----------------------------
(***************************************************************************)
(* Callers' threads that pass ONE outcome list object (ranks or scores - a *)
(* constant of the program) to rate calls on disjoint ratings: the second  *)
(* shared location of property C14's thread clause besides the model       *)
(* object (Threads.tla).                                                   *)
(*                                                                         *)
(*   arg      the list object's current elements                           *)
(*   ts[t]    pc; the elements the call has read so far (position by       *)
(*            position, each element read once, in order); its result      *)
(*                                                                         *)
(* A call reads the list element by element and returns a result that      *)
(* depends on the weak order of what it read.  The design has NO action    *)
(* that writes the list (ArgsReadOnly).  With the constant RelabelInPlace  *)
(* a call first rewrites the list to its dense ranks, one element at a     *)
(* time - sequentially invisible (same weak order, idempotent), the change *)
(* an agent seeded as j14 - and TLC finds the interleaving in which the    *)
(* other caller reads a half-rewritten list.                               *)
(***************************************************************************)
EXTENDS Naturals, Sequences, FiniteSets, TLC

CONSTANTS Threads, Arg0, RelabelInPlace

VARIABLES arg, ts
svars == <<arg, ts>>

N == Len(Arg0)
\* dense rank (0-based) of position i in a vector
Dense(v, i) == Cardinality({v[j] : j \in {k \in 1..Len(v) : v[k] < v[i]}})
\* the weak order of a vector: for every pair, how the two compare
Order(v) == [i \in 1..Len(v) |-> [j \in 1..Len(v) |-> IF v[i] < v[j] THEN "lt" ELSE IF v[i] = v[j] THEN "eq" ELSE "gt"]]

Idle == [pc |-> "idle", wpos |-> 1, snap |-> <<>>, seen |-> <<>>, res |-> <<>>]

SInit == arg = Arg0 /\ ts = [t \in Threads |-> Idle]

Begin(t) == /\ ts[t].pc = "idle"
            /\ ts' = [ts EXCEPT ![t].pc = IF RelabelInPlace THEN "relabel" ELSE "read"]
            /\ UNCHANGED arg
\* (defect) the call computes the dense ranks of the list as it finds it, then stores them one element at a time
Snapshot(t) == /\ RelabelInPlace /\ ts[t].pc = "relabel" /\ ts[t].snap = <<>>
               /\ ts' = [ts EXCEPT ![t].snap = [i \in 1..N |-> Dense(arg, i)]]
               /\ UNCHANGED arg
Store(t) == /\ RelabelInPlace /\ ts[t].pc = "relabel" /\ ts[t].snap # <<>>
            /\ IF ts[t].wpos <= N
                 THEN /\ arg' = [arg EXCEPT ![ts[t].wpos] = ts[t].snap[ts[t].wpos]]
                      /\ ts' = [ts EXCEPT ![t].wpos = @ + 1]
                 ELSE /\ ts' = [ts EXCEPT ![t].pc = "read"] /\ UNCHANGED arg
\* the call reads the next element
ReadElem(t) == /\ ts[t].pc = "read" /\ Len(ts[t].seen) < N
               /\ ts' = [ts EXCEPT ![t].seen = Append(@, arg[Len(@) + 1])]
               /\ UNCHANGED arg
End(t) == /\ ts[t].pc = "read" /\ Len(ts[t].seen) = N
          /\ ts' = [ts EXCEPT ![t].pc = "done", ![t].res = Order(ts[t].seen)]
          /\ UNCHANGED arg

SNext == \E t \in Threads : Begin(t) \/ Snapshot(t) \/ Store(t) \/ ReadElem(t) \/ End(t)
SSpec == SInit /\ [][SNext]_svars

\* no call writes an argument it was given (other than the ratings it rates)
ArgsReadOnly == [][arg' = arg]_svars
\* every call returns what it returns when run alone on the list as the program made it
ResultIsSequential == \A t \in Threads : ts[t].pc = "done" => ts[t].res = Order(Arg0)
\* sequentially the relabelling is invisible: a call that runs alone sees the same weak order (so no single-threaded test notices)
AloneIsFine == \A t \in Threads : (ts[t].pc = "done" /\ \A u \in Threads \ {t} : ts[u].pc = "idle") => ts[t].res = Order(Arg0)
=============================================================================
