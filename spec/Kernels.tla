------------------------------- MODULE Kernels -------------------------------
(***************************************************************************)
(* The truncated-Gaussian correction functions of Weng & Lin (JMLR 2011),  *)
(* V, W (win/loss) and V~, W~ (draw), in two forms:                        *)
(*                                                                         *)
(*  - Exact: ratios of the standard normal density and distribution.       *)
(*  - Doc:   the forms the library documents and substitutes: below the    *)
(*           epsilon guard (Gaussian mass < 2^-52) V = -(x-t), W = 1; for  *)
(*           a draw band of mass < 1e-5, V~ = -x -/+ t; of mass < 2^-52,   *)
(*           W~ = 1; W~ is built from the substituted V~.                  *)
(*                                                                         *)
(* A kernel evaluation returns a record                                    *)
(*     [v |-> value, m |-> magnitude, n |-> noise, g |-> near-guard flag]  *)
(* where a double-precision evaluation of the same form is expected within *)
(* 1e-9*m + n of v (m >= |v| accounts for benign cancellation, n is the    *)
(* absolute rounding term C17 states for the draw kernels), and g says     *)
(* that a guard threshold is within 1e-9 relative of the tested quantity,  *)
(* so that a double evaluation may legitimately take the other branch.     *)
(***************************************************************************)
EXTENDS HPReal

GuardRel  == "1E-9"
BandGuard == "1E-5"
AbsFloor  == "1E-290"      \* anything below is "both below the smallest normal float"

Near(q, thr) == RWithin(q, thr, thr ** GuardRel)

KRec(v, m, n, g) == [v |-> v, m |-> m, n |-> n, g |-> g]

---------------------------------------------------------------------------
\* exact forms
VExact(x, t) == LET xt == x -- t IN RPdf(xt) // RPhi(xt)
WExact(x, t) == LET xt == x -- t
                    v  == VExact(x, t)
                IN  v ** (v ++ xt)

\* band mass of a draw: Phi(t-|x|) - Phi(-t-|x|)
Band(x, t)   == LET xx == RAbs(x) IN RPhi(t -- xx) -- RPhi(RNeg(t) -- xx)

VtExact(x, t) == LET xx == RAbs(x)
                     a  == RPdf(RNeg(t) -- xx) -- RPdf(t -- xx)
                     r  == a // Band(x, t)
                 IN  IF RNegative(x) THEN RNeg(r) ELSE r
WtBandTerm(x, t) == LET xx == RAbs(x)
                    IN (((t -- xx) ** RPdf(t -- xx)) ++ ((t ++ xx) ** RPdf(RNeg(t) -- xx))) // Band(x, t)
WtExact(x, t) == LET vt == VtExact(x, t) IN WtBandTerm(x, t) ++ (vt ** vt)

---------------------------------------------------------------------------
\* documented forms, with budgets
VDoc(x, t) ==
  LET xt  == x -- t
      den == RPhi(xt)
  IN  IF RLt(den, Eps)
        THEN KRec(RNeg(xt), RAbs(xt), AbsFloor, Near(den, Eps))
        ELSE LET v == RPdf(xt) // den IN KRec(v, v, AbsFloor, Near(den, Eps))

WDoc(x, t) ==
  LET xt  == x -- t
      den == RPhi(xt)
  IN  IF RLt(den, Eps)
        THEN KRec("1", "1", AbsFloor, Near(den, Eps))
        ELSE LET v == RPdf(xt) // den
             IN  KRec(v ** (v ++ xt), v ** (v ++ RAbs(xt)), AbsFloor, Near(den, Eps))

VtAsym(x, t) == IF RNegative(x) THEN RNeg(x) -- t ELSE RNeg(x) ++ t

VtDoc(x, t) ==
  LET b == Band(x, t)
  IN  IF RLt(b, BandGuard)
        THEN KRec(VtAsym(x, t), RAbs(x) ++ t, AbsFloor, Near(b, BandGuard))
        ELSE LET v == VtExact(x, t)
             IN  KRec(v, RAbs(v), "1E-15" // t, Near(b, BandGuard))

WtDoc(x, t) ==
  LET b == Band(x, t)
  IN  IF RLt(b, Eps)
        THEN KRec("1", "1", AbsFloor, Near(b, Eps))
        ELSE LET vt == VtDoc(x, t)
                 bt == WtBandTerm(x, t)
             IN  KRec(bt ++ (vt.v ** vt.v),
                   RAbs(bt) ++ (vt.m ** vt.m),
                   ("1E-13" // t) ++ ((R2(vt.m) ++ vt.n) ** vt.n),
                   Near(b, Eps) \/ vt.g)
=============================================================================
