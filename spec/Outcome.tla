------------------------------- MODULE Outcome -------------------------------
(***************************************************************************)
(* From the outcome a caller states (ranks, scores, or nothing) to the     *)
(* weak order the update rules consume.                                    *)
(*                                                                         *)
(* A rank value is a record [t |-> "int"|"float"|"bool", v |-> numeral]    *)
(* (bools carry "1"/"0"); only its numeric value matters (property C03).   *)
(*                                                                         *)
(*  Rule:      CompRank(vals)[i] = number of teams with a strictly smaller *)
(*             value (0-based competition rank: ties share the lowest      *)
(*             position).                                                  *)
(*  Pipeline:  what the library does - stable sort of the teams by value   *)
(*             remembering input positions, a running-index pass over the  *)
(*             sorted values, the update on the sorted teams, and the      *)
(*             inverse permutation on the result.  PipelineRank is that    *)
(*             pass; MC_Outcome checks Pipeline = Rule for all vectors.    *)
(***************************************************************************)
EXTENDS HPReal, FiniteSets

CONSTANT FloatRankUsesIndex   \* the defect repaired by "fix: float ranks ..." (TRUE only in negative controls)

Num(rv) == rv.v
ValLt(a, b) == RLt(Num(a), Num(b))
ValEq(a, b) == REq(Num(a), Num(b))

Idx(s) == 1..Len(s)

\* ---- the rule
CompRank(vals) == [i \in Idx(vals) |-> Cardinality({q \in Idx(vals) : ValLt(vals[q], vals[i])})]
TieSize(vals)  == [i \in Idx(vals) |-> Cardinality({q \in Idx(vals) : ValEq(vals[q], vals[i])})]

\* two outcome vectors describe the same weak order
SameOrder(u, w) == /\ Len(u) = Len(w)
                   /\ \A i, j \in Idx(u) : (ValLt(u[i], u[j]) <=> ValLt(w[i], w[j]))

\* ---- stable sort by value
Before(vals, q, i) == ValLt(vals[q], vals[i]) \/ (ValEq(vals[q], vals[i]) /\ q < i)
Pos(vals)      == [i \in Idx(vals) |-> 1 + Cardinality({q \in Idx(vals) : Before(vals, q, i)})]
SortPerm(vals) == LET pos == Pos(vals) IN [k \in Idx(vals) |-> CHOOSE i \in Idx(vals) : pos[i] = k]
Sorted(vals, objs) == LET p == SortPerm(vals) IN [k \in Idx(vals) |-> objs[p[k]]]
\* inverse: the object for input position i is the one at sorted position Pos[i]
Unwind(vals, sortedObjs) == LET pos == Pos(vals) IN [i \in Idx(vals) |-> sortedObjs[pos[i]]]

\* neighbours of team i on the ladder (partial pairing): adjacent in the sorted order
Ladder(vals, i) == LET pos == Pos(vals) IN {q \in Idx(vals) : pos[q] = pos[i] + 1 \/ pos[q] + 1 = pos[i]}

\* ---- the library's running-index pass over the *sorted* values
\* team_scores[k] is the value if it is an int (and, since the fix, a float), else the index k-1
TeamScore(sv, k) == IF FloatRankUsesIndex /\ sv[k].t = "float"
                      THEN [t |-> "int", v |-> RNorm(k - 1)] ELSE sv[k]
RECURSIVE RunIdx(_, _)
RunIdx(sv, k) == IF k = 1 THEN 0
                 ELSE IF ValLt(TeamScore(sv, k - 1), TeamScore(sv, k)) THEN k - 1 ELSE RunIdx(sv, k - 1)
PipelineRank(vals) == LET sv == Sorted(vals, vals)
                          rs == [k \in Idx(vals) |-> RunIdx(sv, k)]
                      IN  Unwind(vals, rs)

\* ---- from call arguments to values
IntVal(k) == [t |-> "int", v |-> RNorm(k)]
Identity(n) == [i \in 1..n |-> IntVal(i - 1)]
Negated(scores) == [i \in Idx(scores) |-> [t |-> scores[i].t, v |-> RNeg(scores[i].v)]]
=============================================================================
