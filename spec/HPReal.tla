------------------------------- MODULE HPReal -------------------------------
(***************************************************************************)
(* Real numbers for TLC.  A real is a STRING holding a decimal numeral     *)
(* ("1.5", "-2E-7", "0").  The operators below are implemented by the Java *)
(* module override HPReal.class (java.math.BigDecimal, every result        *)
(* rounded to 40 significant digits, transcendental functions evaluated    *)
(* at 70+ digits); the TLA+ bodies are placeholders that TLC never         *)
(* evaluates.  Nothing here has IEEE rounding behaviour: the specification *)
(* built on top is the mathematical rule, not a re-implementation of the   *)
(* code's floating point.                                                  *)
(***************************************************************************)
EXTENDS Integers, Sequences

RAdd(a, b)  == CHOOSE x \in STRING : TRUE     \* a + b
RSub(a, b)  == CHOOSE x \in STRING : TRUE     \* a - b
RMul(a, b)  == CHOOSE x \in STRING : TRUE     \* a * b
RDiv(a, b)  == CHOOSE x \in STRING : TRUE     \* a / b   (b = 0 is a TLC error)
RNeg(a)     == CHOOSE x \in STRING : TRUE     \* -a
RAbs(a)     == CHOOSE x \in STRING : TRUE     \* |a|
RSqrt(a)    == CHOOSE x \in STRING : TRUE     \* sqrt(a) (a < 0 is a TLC error)
RExp(a)     == CHOOSE x \in STRING : TRUE     \* e^a
RPhi(a)     == CHOOSE x \in STRING : TRUE     \* standard normal CDF, accurate in both tails
RPdf(a)     == CHOOSE x \in STRING : TRUE     \* standard normal density
RPhiInv(a)  == CHOOSE x \in STRING : TRUE     \* inverse CDF on (0, 1)
RMax(a, b)  == CHOOSE x \in STRING : TRUE
RMin(a, b)  == CHOOSE x \in STRING : TRUE
RLt(a, b)   == CHOOSE x \in BOOLEAN : TRUE    \* a < b
RLeq(a, b)  == CHOOSE x \in BOOLEAN : TRUE    \* a <= b
REq(a, b)   == CHOOSE x \in BOOLEAN : TRUE    \* a = b as numbers ("1.0" = "1")
RSign(a)    == CHOOSE x \in -1..1 : TRUE
RWithin(a, b, tol) == CHOOSE x \in BOOLEAN : TRUE   \* |a - b| <= tol
RNorm(a)    == CHOOSE x \in STRING : TRUE     \* canonical numeral of a
RIsReal(a)  == CHOOSE x \in BOOLEAN : TRUE    \* is the string a numeral?
RScale2(a, k) == CHOOSE x \in STRING : TRUE   \* a * 2^k, k an integer
RToInt(a)   == CHOOSE x \in Int : TRUE        \* nearest integer, small values only
RUlp(a)     == CHOOSE x \in STRING : TRUE     \* ulp of the double nearest to a

\* infix forms (precedence: ++ 10, -- 11, ** and // 13; ++, --, ** associate to the left)
a ++ b == RAdd(a, b)
a -- b == RSub(a, b)
a ** b == RMul(a, b)
a // b == RDiv(a, b)

\* derived
RGt(a, b)  == RLt(b, a)
RGeq(a, b) == RLeq(b, a)
RSq(a)     == RMul(a, a)
RIsZero(a) == RSign(a) = 0
RPos(a)    == RSign(a) = 1
RNegative(a) == RSign(a) = -1
RHalf(a)   == RMul(a, "0.5")
R2(a)      == RMul(a, "2")
RInv(a)    == RDiv("1", a)

RECURSIVE RSumSeq(_)
RSumSeq(s) == IF s = <<>> THEN "0" ELSE RAdd(Head(s), RSumSeq(Tail(s)))

RECURSIVE RSumAbsSeq(_)
RSumAbsSeq(s) == IF s = <<>> THEN "0" ELSE RAdd(RAbs(Head(s)), RSumAbsSeq(Tail(s)))

\* sum over a finite set S of f[x]  (f a function S -> reals)
RECURSIVE RSumSet(_, _)
RSumSet(S, f) == IF S = {} THEN "0"
                 ELSE LET x == CHOOSE y \in S : TRUE IN RAdd(f[x], RSumSet(S \ {x}, f))

Eps      == "2.220446049250313080847263336181640625E-16"     \* 2^-52, the library's epsilon guard
TinyNorm == "2.2250738585072014E-308"                        \* 2^-1022
=============================================================================
