--------------------------------- MODULE Sem ---------------------------------
(***************************************************************************)
(* Meaning of the library's public operations on PyVal-level calls: the    *)
(* functional core that both the state machine (OpenSkill.tla, generating) *)
(* and the trace specification (Trace.tla, accepting) are defined from.    *)
(*                                                                         *)
(* A model is a record [id, kind, mu, sigma, beta, kappa, tau, limit,      *)
(* gamma, extra]; limit is "T"/"F", gamma the name of a callback, extra    *)
(* the (normally empty) list of non-standard attributes.                   *)
(* A rate call is [teams, ranks, scores, tau, limit] of PyVals.            *)
(***************************************************************************)
EXTENDS HPReal, PyVal, TLC

CONSTANTS FloatRankUsesIndex,     \* defect D2 (repaired): float ranks replaced by the index
          TauZeroFallsBack        \* defect D4 (repaired): tau = 0 per call ignored

INSTANCE Update      \* brings Outcome (instantiated with FloatRankUsesIndex) and Kernels
INSTANCE Predict

ModelP(m) == [beta |-> m.beta, kappa |-> m.kappa, gamma |-> m.gamma]

\* per-call options mean what the model-level ones mean (C15)
EffTau(m, c) == IF IsNone(c.tau) \/ (TauZeroFallsBack /\ IsNum(c.tau) /\ RIsZero(c.tau.v)) THEN m.tau ELSE c.tau.v
EffLimit(m, c) == IF IsNone(c.limit) THEN m.limit = "T" ELSE c.limit.v = "1"

\* outcome values of a well-formed call, in input order
RankVals(sel) == PMatV([i \in 1..Len(sel.items) |-> [t |-> sel.items[i].t, v |-> sel.items[i].v]])
OutcomeVals(c) ==
  IF Given(c.ranks) THEN RankVals(c.ranks)
  ELSE IF Given(c.scores) THEN Negated(RankVals(c.scores))
  ELSE Identity(Len(c.teams.items))

\* can the specification evaluate the rule here? (finite numerals, positive scales, positive variances)
Computable(m, c) ==
  /\ RIsReal(m.beta) /\ RPos(m.beta) /\ RIsReal(m.kappa) /\ RPos(m.kappa) /\ RIsReal(m.tau)
  /\ m.gamma \in {"default", "one", "zero", "big", "probe"}
  /\ AllRealLeaves(c.teams)
  /\ DistinctObjects(c.teams)
  /\ (IsNone(c.tau) \/ IsFinite(c.tau))
  /\ (Given(c.ranks) => \A i \in 1..Len(c.ranks.items) : IsFinite(c.ranks.items[i]))
  /\ (Given(c.scores) => \A i \in 1..Len(c.scores.items) : IsFinite(c.scores.items[i]))
  /\ LET tau == EffTau(m, c)
     IN  \A i \in 1..Len(c.teams.items) :
            /\ \A j \in 1..Len(c.teams.items[i].items) : ~RNegative(At(c.teams, i, j).sigma)
            \* a team needs some variance: a sigma-0 player is fine beside a team mate with sigma > 0 (share 0), or with tau > 0
            /\ (~RIsZero(tau) \/ \E j \in 1..Len(c.teams.items[i].items) : RPos(At(c.teams, i, j).sigma))

\* the posterior with budgets, for a well-formed computable call
RateX(m, c) == RateFn(m.kind, ModelP(m), TeamsVals(c.teams), OutcomeVals(c), EffTau(m, c), EffLimit(m, c))

\* the value rate returns: same nesting, same player at every position, posterior values
RateValue(c, X) ==
  PList(PMatV([i \in 1..Len(c.teams.items) |->
    PList(PMatV([j \in 1..Len(c.teams.items[i].items) |->
      [At(c.teams, i, j) EXCEPT !.mu = X[i][j].mu, !.sigma = X[i][j].sigma]]))]))

\* predictions
PredictComputable(m, teams) ==
  /\ RIsReal(m.beta) /\ RPos(m.beta) /\ AllRealLeaves(teams)     \* the same object in several slots is fine: predictions only read
  /\ \A i \in 1..Len(teams.items) : \A j \in 1..Len(teams.items[i].items) : ~RNegative(At(teams, i, j).sigma)

WinX(m, teams)  == Win(m.beta, TeamsVals(teams))
DrawX(m, teams) == Draw(m.beta, TeamsVals(teams))
RankX(m, teams) == RankProb(m.beta, TeamsVals(teams))

---------------------------------------------------------------------------
\* Construction of a model object: Model(mu, sigma, beta, kappa, gamma, tau, limit_sigma), every argument optional
\* (an absent argument is PNone here).  An omitted argument takes the published default - which does not follow the
\* other arguments: sigma stays 25/3 and beta 25/6 when only mu is given -, a numeric argument (int, float, bool) is
\* stored as the float of the same value, gamma and limit_sigma are stored as given.  Nothing else is stored.
NumAttrs == {"mu", "sigma", "beta", "kappa", "tau"}
DefaultOf(a) == CASE a = "mu" -> "25" [] a = "sigma" -> "25" // "3" [] a = "beta" -> "25" // "6"
                  [] a = "kappa" -> "0.0001" [] a = "tau" -> "25" // "300"
\* the attribute value the owner asked for (a real), or "" when the argument is not a finite number
AskedNum(args, a) == IF IsNone(args[a]) THEN DefaultOf(a) ELSE IF IsFinite(args[a]) THEN args[a].v ELSE ""
AskedLimit(args) == IF IsNone(args.limit) THEN "F" ELSE IF args.limit.t = "bool" THEN (IF args.limit.v = "1" THEN "T" ELSE "F") ELSE ""
AskedGamma(args) == IF IsNone(args.gamma) THEN "default" ELSE args.gamma.v          \* callbacks are passed by name (PStr)
\* the model record a constructor call must produce (numerals normalised; the code holds doubles of them)
Construct(kind, id, args) ==
  [id |-> id, kind |-> kind, mu |-> AskedNum(args, "mu"), sigma |-> AskedNum(args, "sigma"), beta |-> AskedNum(args, "beta"),
   kappa |-> AskedNum(args, "kappa"), tau |-> AskedNum(args, "tau"), limit |-> AskedLimit(args), gamma |-> AskedGamma(args), extra |-> ""]
\* is the observed model object the one asked for?  attribute by attribute; a default is a quotient, so one ulp is allowed there
AttrAsAsked(args, m, a) ==
  LET want == AskedNum(args, a)
  IN  want = "" \/ (RIsReal(m[a]) /\ IF IsNone(args[a]) THEN RWithin(m[a], want, RUlp(want)) ELSE REq(m[a], want))
ConstructDiffers(args, m) ==
  {a \in NumAttrs : ~AttrAsAsked(args, m, a)}
  \cup (IF AskedLimit(args) # "" /\ m.limit # AskedLimit(args) THEN {"limit_sigma"} ELSE {})
  \cup (IF m.gamma # AskedGamma(args) THEN {"gamma"} ELSE {})
  \cup (IF m.extra # "" THEN {"extra_attribute"} ELSE {})
\* which listed properties speak about a configuration attribute ("for every model configuration", "models with the same
\* parameters", "the model's own setting", "model defaults only where an argument is omitted")
PropsOfAttr(a) == CASE a \in {"mu", "sigma"} -> {"C16", "C19", "C20"}
                    [] a = "beta"  -> {"C01", "C08", "C09", "C10", "C11", "C12", "C16", "C19"}
                    [] a = "kappa" -> {"C01", "C06", "C08", "C19"}
                    [] a = "tau"   -> {"C01", "C06", "C15", "C16", "C19"}
                    [] a = "limit_sigma" -> {"C06", "C15", "C19"}
                    [] a = "gamma" -> {"C01", "C19"}
                    [] OTHER -> {"C14", "C19"}
ConstructFails(args, m, Want) ==
  UNION {{p \o ".model_not_as_constructed:" \o a : p \in PropsOfAttr(a) \cap Want} : a \in ConstructDiffers(args, m)}

\* numeric domain of the properties (C01/C08): mu within 20 beta, sigma in [1e-4, 10] beta (0 allowed with tau > 0),
\* kappa in (0, 1e-2] and, for Thurstone-Mosteller, kappa <= 1e-2*sqrt(2)*beta so that t = kappa/c <= 1e-2
InDomainVals(m, teams, tau) ==
  \A i \in 1..Len(teams.items) : \A j \in 1..Len(teams.items[i].items) :
     LET p == At(teams, i, j)
     IN  /\ RLeq(RAbs(p.mu), "20.000001" ** m.beta)
         /\ RLeq(p.sigma, "10.000001" ** m.beta)
         /\ (RLeq("0.00009999" ** m.beta, p.sigma) \/ (RIsZero(p.sigma) /\ RPos(tau)))

InDomainRate(m, c) ==
  /\ Len(c.teams.items) <= 8
  /\ \A i \in 1..Len(c.teams.items) : Len(c.teams.items[i].items) <= 16
  /\ RLeq(m.kappa, "0.01")
  /\ (m.kind \in {"TMF", "TMP"} => RLeq(m.kappa, "0.01414" ** m.beta))
  /\ ~RNegative(EffTau(m, c))
  /\ RLeq(EffTau(m, c), "10" ** m.beta)
  /\ InDomainVals(m, c.teams, EffTau(m, c))

InDomainPredict(m, teams) ==
  /\ Len(teams.items) <= 8
  /\ \A i \in 1..Len(teams.items) : Len(teams.items[i].items) <= 16
  /\ InDomainVals(m, teams, "0")
=============================================================================
