----------------------------- MODULE HPRealTest -----------------------------
(* Self-test of the HPReal override: every operator on a grid of points,   *)
(* compared with values computed by mpmath at 60 digits (file named by the *)
(* environment variable HP_CASES).  Run by setup and by ./check selftest.  *)
EXTENDS HPReal, Json, IOUtils, TLC, FiniteSets

Cases == JsonDeserialize(IOEnv.HP_CASES)

Apply(c) ==
  CASE c.op = "add"    -> RAdd(c.a, c.b)
    [] c.op = "sub"    -> RSub(c.a, c.b)
    [] c.op = "mul"    -> RMul(c.a, c.b)
    [] c.op = "div"    -> RDiv(c.a, c.b)
    [] c.op = "sqrt"   -> RSqrt(c.a)
    [] c.op = "exp"    -> RExp(c.a)
    [] c.op = "phi"    -> RPhi(c.a)
    [] c.op = "pdf"    -> RPdf(c.a)
    [] c.op = "phiinv" -> RPhiInv(c.a)
    [] c.op = "neg"    -> RNeg(c.a)
    [] c.op = "abs"    -> RAbs(c.a)
    [] c.op = "max"    -> RMax(c.a, c.b)
    [] c.op = "min"    -> RMin(c.a, c.b)
    [] c.op = "scale2" -> RScale2(c.a, c.k)

Ok(c) == LET got == Apply(c) IN RWithin(got, c.want, RMul(RAbs(c.want), "1E-36"))

Bad == { i \in 1..Len(Cases) : ~Ok(Cases[i]) }

ASSUME PrintT(<<"hpreal-selftest cases", Len(Cases), "bad", Cardinality(Bad)>>)
ASSUME \A i \in Bad : PrintT(<<"BAD", Cases[i], Apply(Cases[i])>>)
ASSUME Bad = {}

\* algebraic sanity, independent of mpmath
ASSUME REq(RPhi("0"), "0.5")
ASSUME RWithin(RAdd(RPhi("1.25"), RPhi("-1.25")), "1", "1E-38")
ASSUME RWithin(RPhi(RPhiInv("0.75")), "0.75", "1E-38")
ASSUME RLt("-3", "2") /\ ~RLt("2", "2") /\ RLeq("2", "2.0") /\ REq("1e-05", "0.00001")
ASSUME RSign("-0.0") = 0 /\ RSign("-1e-300") = -1 /\ RToInt("3.0") = 3
ASSUME RSumSeq(<<"1", "2.5", "-0.5">>) = "3"
ASSUME RNorm("1.50") = "1.5" /\ RIsReal("1e-5") /\ ~RIsReal("nan") /\ ~RIsReal("inf")

VARIABLE x
Init == x = 0
Next == UNCHANGED x
=============================================================================
