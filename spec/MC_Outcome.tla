----------------------------- MODULE MC_Outcome -----------------------------
(***************************************************************************)
(* Exhaustive check of the outcome pipeline (property C03) on the          *)
(* specification: for EVERY vector of length 2..MaxN over tagged values    *)
(* (ints, floats, bools, negative, -0.0)                                   *)
(*   - the library's pipeline (stable sort, running index on the sorted    *)
(*     values, unwind) computes the rule (competition rank by counting     *)
(*     strictly smaller values),                                           *)
(*   - unwinding inverts the sort,                                         *)
(*   - the result is invariant under two strictly increasing relabellings  *)
(*     and under writing the outcome as scores.                            *)
(* With FloatRankUsesIndex = TRUE (the repaired defect) TLC must report a  *)
(* violation: negative control.                                            *)
(***************************************************************************)
EXTENDS HPReal, FiniteSets, TLC

CONSTANTS FloatRankUsesIndex, MaxN
INSTANCE Outcome

VARIABLE vec

Values == {[t |-> "int", v |-> "-1"], [t |-> "int", v |-> "0"], [t |-> "float", v |-> "0.0"], [t |-> "float", v |-> "-0.0"],
           [t |-> "int", v |-> "1"], [t |-> "float", v |-> "1.0"], [t |-> "bool", v |-> "1"], [t |-> "bool", v |-> "0"],
           [t |-> "float", v |-> "2.5"], [t |-> "int", v |-> "2"], [t |-> "float", v |-> "0.5"]}

Init == vec \in UNION {[1..n -> Values] : n \in 2..MaxN}
Next == UNCHANGED vec

\* strictly increasing relabellings
MapA(rv) == [t |-> "float", v |-> (rv.v ** "3.5") ++ "-7.25"]                 \* affine, into floats
MapB(rv) == [t |-> "int", v |-> RNorm(RToInt(rv.v ** "2") + 1000000)]          \* 2x + 10^6, into ints (2.5 -> 1000005)
Relabel(f(_), u) == [i \in Idx(u) |-> f(u[i])]

PipelineIsRule    == \A i \in Idx(vec) : PipelineRank(vec)[i] = CompRank(vec)[i]
UnwindInvertsSort == Unwind(vec, Sorted(vec, vec)) = vec
RelabelInvariant  == /\ SameOrder(vec, Relabel(MapA, vec)) /\ CompRank(Relabel(MapA, vec)) = CompRank(vec)
                     /\ SameOrder(vec, Relabel(MapB, vec)) /\ CompRank(Relabel(MapB, vec)) = CompRank(vec)
                     /\ \A i \in Idx(vec) : PipelineRank(Relabel(MapA, vec))[i] = PipelineRank(vec)[i]
                     /\ \A i \in Idx(vec) : PipelineRank(Relabel(MapB, vec))[i] = PipelineRank(vec)[i]
\* scores are ranks negated: negating twice is the identity on the order
ScoresAreNegatedRanks == SameOrder(Negated(Negated(vec)), vec)
                         /\ \A i, j \in Idx(vec) : ValLt(vec[i], vec[j]) <=> ValLt(Negated(vec)[j], Negated(vec)[i])
\* the ladder is symmetric and has the right size
LadderSymmetric == \A i, q \in Idx(vec) : (q \in Ladder(vec, i)) <=> (i \in Ladder(vec, q))
LadderSize == \A i \in Idx(vec) : Cardinality(Ladder(vec, i)) = (IF Pos(vec)[i] \in {1, Len(vec)} THEN 1 ELSE 2)
=============================================================================
