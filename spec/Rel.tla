--------------------------------- MODULE Rel ---------------------------------
(* Relational properties over groups of sibling calls, and the object-level   *)
(* operations (construction, copy, comparison).  -- stub, filled in below     *)
EXTENDS Props

ObjVerdict(e, heap, Want) == [fails |-> {"bind.unknown_op:" \o e.op}, cls |-> {}, X |-> <<>>]
ObjTouched(e) == {}
GroupStep(grp, e, X, Want) == [grp |-> grp, fails |-> {}, cls |-> {}]
=============================================================================
