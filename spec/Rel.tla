--------------------------------- MODULE Rel ---------------------------------
(***************************************************************************)
(* (1) Object-level operations: constructing, copying, comparing, ordering *)
(*     and hashing ratings (properties C18, C20, parts of C19).            *)
(* (2) Relational properties: formulas over a *group* of sibling calls     *)
(*     (C03, C04, C05, C09, C10, C11, C14, C15, C16, C19, C20).  A driver  *)
(*     tags sibling calls with a group id, the property the group is about *)
(*     (gprop) and a role; whether two calls really are siblings is decided*)
(*     here, from the recorded arguments (a mis-tagged group is an         *)
(*     ill-formed trace, "bind.*", never a silent pass).                   *)
(***************************************************************************)
EXTENDS Props

---------------------------------------------------------------------------
\* erasure: what a result may depend on - values, not identity, ids or names
RECURSIVE Erase(_)
Erase(p) == IF IsRating(p) THEN [PV("rating", "") EXCEPT !.mu = p.mu, !.sigma = p.sigma]
            ELSE IF p.t \in {"list", "tuple"} THEN [p EXCEPT !.items = PMatV([k \in 1..Len(p.items) |-> Erase(p.items[k])])]
            ELSE p
\* ... or values and whether a rating belongs to the model's own class (for cross-model comparison)
RECURSIVE EraseOwn(_, _)
EraseOwn(p, kind) == IF IsRating(p) THEN [PV("rating", IF p.v = kind THEN "own" ELSE "foreign") EXCEPT !.mu = p.mu, !.sigma = p.sigma]
                     ELSE IF p.t \in {"list", "tuple"} THEN [p EXCEPT !.items = PMatV([k \in 1..Len(p.items) |-> EraseOwn(p.items[k], kind)])]
                     ELSE p

\* the construction parameters; attributes a model acquires besides them ("extra") are C14's business, not a reason to
\* call two calls unrelated
ModelParams(m) == [kind |-> m.kind, mu |-> m.mu, sigma |-> m.sigma, beta |-> m.beta, kappa |-> m.kappa,
                   tau |-> m.tau, limit |-> m.limit, gamma |-> m.gamma]
ModelNoKind(m) == [ModelParams(m) EXCEPT !.kind = ""]
OutErased(e) == [kind |-> e.out.kind, exc |-> e.out.exc, value |-> Erase(e.out.value)]

\* numbers equal as numbers (so 1 and 1.0 agree) when both are numerals
NumEq(a, b) == IF RIsReal(a) /\ RIsReal(b) THEN REq(a, b) ELSE a = b

---------------------------------------------------------------------------
\* (1) object operations
HeapUids(heap) == {heap[r].uid : r \in DOMAIN heap}

Fresh(leaf, heap) == leaf.ref \notin DOMAIN heap /\ leaf.uid # "" /\ leaf.uid \notin HeapUids(heap)

NameOk(leaf, name) == IF IsNone(name) THEN leaf.nt = "none"
                      ELSE IF name.t = "str" THEN leaf.nt = "str" /\ leaf.nm = name.v ELSE TRUE

RatingVerdict(e, heap) ==
  LET m == e.model
      v == e.out.value
      wantMu == IF IsNone(e.mu) THEN m.mu ELSE e.mu.v
      wantSg == IF IsNone(e.sigma) THEN m.sigma ELSE e.sigma.v
      argsOk == (IsNone(e.mu) \/ IsNum(e.mu)) /\ (IsNone(e.sigma) \/ IsNum(e.sigma)) /\ (IsNone(e.name) \/ e.name.t = "str")
  IN  IF ~argsOk THEN {}
      ELSE IF e.out.kind # "ok" \/ ~IsRatingOf(v, m.kind) THEN {"C20.rating_not_built"}
      ELSE (IF v.mu # wantMu THEN {"C20.rating_mu"} ELSE {})
           \cup (IF v.sigma # wantSg THEN {"C20.rating_sigma"} ELSE {})
           \cup (IF ~NameOk(v, e.name) THEN {"C20.rating_name"} ELSE {})
           \cup (IF ~Fresh(v, heap) THEN {"C20.id_not_fresh"} ELSE {})

CreateWF(arg) == IsList(arg) /\ Len(arg.items) = 2 /\ IsNum(arg.items[1]) /\ IsNum(arg.items[2])
CreateVerdict(e, heap) ==
  LET v == e.out.value
      nameOk == IsNone(e.name) \/ (e.name.t = "str" /\ e.name.v # "")
  IN  IF ~CreateWF(e.arg) \/ ~nameOk THEN {}
      ELSE IF e.out.kind # "ok" \/ ~IsRatingOf(v, e.model.kind) THEN {"C20.create_not_built"}
      ELSE (IF v.mu # e.arg.items[1].v THEN {"C20.create_mu"} ELSE {})
           \cup (IF v.sigma # e.arg.items[2].v THEN {"C20.create_sigma"} ELSE {})
           \cup (IF ~NameOk(v, e.name) THEN {"C20.create_name"} ELSE {})
           \cup (IF ~Fresh(v, heap) THEN {"C20.id_not_fresh"} ELSE {})
           \cup (IF e.arg_after # e.arg THEN {"C20.create_modified_argument"} ELSE {})

\* deepcopy: same nesting, same data at every leaf, every copy a distinct fresh object
RECURSIVE CopyOf(_, _)
CopyOf(c, o) ==
  IF IsRating(o) THEN IsRating(c) /\ SameData(c, o) /\ c.ref # o.ref
  ELSE IF o.t \in {"list", "tuple"} THEN /\ c.t = o.t /\ Len(c.items) = Len(o.items)
                                         /\ \A k \in 1..Len(o.items) : CopyOf(c.items[k], o.items[k])
  ELSE c = o
DeepcopyVerdict(e, heap) ==
  IF e.out.kind # "ok" THEN {"C20.deepcopy_raised:" \o e.out.exc}
  ELSE (IF CopyOf(e.out.value, e.arg) THEN {} ELSE {"C20.deepcopy_differs"})
       \cup (IF \E x \in Leaves(e.out.value) : x.ref \in DOMAIN heap \/ x.ref \in {y.ref : y \in Leaves(e.arg)}
               THEN {"C20.deepcopy_not_distinct"} ELSE {})
       \cup (IF e.arg_after # e.arg THEN {"C20.deepcopy_modified_original"} ELSE {})

\* comparisons
OrderOps == {"lt", "le", "gt", "ge"}
CmpReal(op, x, y) == CASE op = "lt" -> RLt(x, y) [] op = "le" -> RLeq(x, y) [] op = "gt" -> RLt(y, x) [] op = "ge" -> RLeq(y, x)
CmpVerdict(e) ==
  LET a == e.a  b == e.b  op == e.cmpop
      same == IsRating(a) /\ IsRating(b) /\ a.v = b.v
      fin == same /\ RIsReal(a.mu) /\ RIsReal(a.sigma) /\ RIsReal(b.mu) /\ RIsReal(b.sigma)
      isBool(x) == e.out.kind = "ok" /\ e.out.value.t = "bool" /\ e.out.value.v = (IF x THEN "1" ELSE "0")
      pure == (IF e.a_after # a \/ e.b_after # b THEN {"C18.comparison_modified_operand"} ELSE {})
      \* an operand whose own __eq__ claims equality with everything: the reflected comparison is Python's, not the library's
      permissive == b.t = "obj" /\ b.v = "Permissive"
  IN  IF ~IsRating(a) \/ permissive THEN {}
      ELSE pure \cup
       (IF same
         THEN IF ~fin THEN {}
              ELSE IF op \in OrderOps
                     THEN IF e.oa.t # "float" \/ e.ob.t # "float" \/ ~RIsReal(e.oa.v) \/ ~RIsReal(e.ob.v) THEN {"C18.no_ordinal"}
                          ELSE IF isBool(CmpReal(op, e.oa.v, e.ob.v)) THEN {} ELSE {"C18.order_disagrees_with_ordinal:" \o op}
                   ELSE LET eq == REq(a.mu, b.mu) /\ REq(a.sigma, b.sigma)
                        IN  IF isBool(IF op = "eq" THEN eq ELSE ~eq) THEN {} ELSE {"C18.equality:" \o op}
         ELSE IF op \in OrderOps
                THEN IF e.out.kind = "raise" /\ e.out.exc = "ValueError" THEN {}
                     ELSE {"C18.foreign_operand_not_rejected:" \o op}
              ELSE IF isBool(op = "ne") THEN {} ELSE {"C18.foreign_operand_equality:" \o op})

\* ordinal(z) = mu - z*sigma to within the rounding of the two operations
OrdinalVerdict(e) ==
  LET a == e.a
      z == IF IsNone(e.z) THEN "3" ELSE e.z.v
      ok == IsRating(a) /\ RIsReal(a.mu) /\ RIsReal(a.sigma) /\ (IsNone(e.z) \/ IsFinite(e.z))
  IN  IF ~ok THEN {}
      ELSE IF e.out.kind # "ok" \/ e.out.value.t \notin {"float", "int"} \/ ~RIsReal(e.out.value.v) THEN {"C18.ordinal_no_value"}
      ELSE LET want == a.mu -- (z ** a.sigma)
               tol  == RUlp(a.mu) ++ RUlp(z ** a.sigma) ++ RUlp(want)
           IN  (IF RWithin(e.out.value.v, want, tol) THEN {} ELSE {"C18.ordinal_value"})
               \cup (IF e.a_after # a THEN {"C18.ordinal_modified_rating"} ELSE {})

\* sorted(): a permutation of the input, in non-decreasing order of the observed ordinals
SortedVerdict(e) ==
  LET arg == e.arg  out == e.out.value
      ok == IsList(arg) /\ \A k \in 1..Len(arg.items) : IsRating(arg.items[k]) /\ arg.items[k].v = arg.items[1].v
  IN  IF ~ok \/ ~IsList(e.ords) THEN {}
      ELSE IF e.out.kind # "ok" \/ ~IsList(out) \/ Len(out.items) # Len(arg.items) THEN {"C18.sorted_failed"}
      ELSE LET n == Len(arg.items)
               ord(ref) == LET k == CHOOSE k \in 1..n : arg.items[k].ref = ref IN e.ords.items[k].v
               perm == /\ \A k \in 1..n : \E j \in 1..n : out.items[j] = arg.items[k]
                       /\ \A j \in 1..n : \E k \in 1..n : out.items[j] = arg.items[k]
           IN  IF ~perm THEN {"C18.sorted_not_permutation"}
               ELSE IF \A j \in 1..(n - 1) : RLeq(ord(out.items[j].ref), ord(out.items[j + 1].ref)) THEN {}
               ELSE {"C18.sorted_not_by_ordinal"}

ObjVerdict(e, heap, Want) ==
  LET w20 == "C20" \in Want
      w18 == "C18" \in Want
      f == CASE e.op = "rating"   -> IF w20 THEN RatingVerdict(e, heap) ELSE {}
             [] e.op = "create"   -> IF w20 THEN CreateVerdict(e, heap) ELSE {}
             [] e.op = "deepcopy" -> IF w20 THEN DeepcopyVerdict(e, heap) ELSE {}
             [] e.op = "cmp"      -> IF w18 THEN CmpVerdict(e) ELSE {}
             [] e.op = "ordinal"  -> IF w18 THEN OrdinalVerdict(e) ELSE {}
             [] e.op = "sorted"   -> IF w18 THEN SortedVerdict(e) ELSE {}
             [] e.op = "new_model" -> ConstructFails(e.args, e.model, Want)
             \* an observation between calls: a rating holds what it held when its owner last looked (the caller's own
             \* assignments are `assign` events); a constructor that keeps the caller's list, say, breaks this
             [] e.op = "holds" -> IF w20 /\ ~SameData(e.a, e.was) THEN {"C20.rating_changed_outside_any_call"} ELSE {}
             [] e.op \in {"hash", "api", "assign", "setattr"} -> {}
             [] OTHER             -> {"bind.unknown_op:" \o e.op}
  IN  [fails |-> f, cls |-> {"op=" \o e.op} \cup (IF e.out.kind = "ok" THEN {"ok"} ELSE {"raise:" \o e.out.exc}), X |-> <<>>]

ObjTouched(e) ==
  CASE e.op \in {"rating", "create"} -> IF e.out.kind = "ok" THEN {e.out.value} ELSE {}
    [] e.op = "deepcopy" -> {e.arg_after} \cup (IF e.out.kind = "ok" THEN {e.out.value} ELSE {})
    [] e.op = "cmp"      -> {e.a_after, e.b_after}
    [] e.op \in {"ordinal", "assign"} -> {e.a_after}
    [] e.op = "holds"    -> {e.a}     \* assign: the caller sets mu / sigma of a rating object
    [] OTHER             -> {}

---------------------------------------------------------------------------
\* (2) groups
GP(e, clause) == e.gprop \o "." \o clause

IsRateEv(e) == e.op = "rate"
IsPredEv(e) == e.op \in {"win", "draw", "rank"}

\* the arguments of a rate/predict call, erased
ArgsErased(e) ==
  IF IsRateEv(e) THEN <<Erase(e.teams), e.ranks, e.scores, e.tau, e.limit>>
  ELSE IF IsPredEv(e) THEN <<Erase(e.teams)>>
  ELSE IF e.op = "hash" THEN <<e.a.uid, e.a.mu, e.a.sigma>>
  ELSE IF e.op = "api" THEN <<e.what>>
  ELSE IF e.op = "cmp" THEN <<e.cmpop, EraseOwn(e.a, e.a.v), EraseOwn(e.b, e.a.v)>>
  ELSE IF e.op = "deepcopy" THEN <<Erase(e.arg)>>
  ELSE <<>>

\* permutations carried in aux: aux = [tp, mps]; new team k is base team tp[k], its member l is base member mps[k][l]
AuxInts(p) == PMatV([k \in 1..Len(p.items) |-> RToInt(p.items[k].v)])
TP(e)  == AuxInts(e.aux.items[1])
MPS(e) == PMatV([k \in 1..Len(e.aux.items[2].items) |-> AuxInts(e.aux.items[2].items[k])])
IsPermOf(p, n) == Len(p) = n /\ \A i \in 1..n : \E k \in 1..n : p[k] = i

PermutedTeamsMatch(b, e) ==
  LET n == N(b)  tp == TP(e)  mps == MPS(e)
  IN  /\ N(e) = n /\ IsPermOf(tp, n) /\ Len(mps) = n
      /\ \A k \in 1..n : /\ Len(e.teams.items[k].items) = Len(b.teams.items[tp[k]].items)
                         /\ IsPermOf(mps[k], Len(e.teams.items[k].items))
                         /\ \A l \in 1..Len(e.teams.items[k].items) :
                               SameValues(Pre(e, k, l), Pre(b, tp[k], mps[k][l]))

\* group state
NoGroup == [id |-> "", evs |-> <<>>]
First(g, role) == LET K == {k \in 1..Len(g.evs) : g.evs[k].e.role = role} IN g.evs[CHOOSE k \in K : \A j \in K : k <= j]
Has(g, role) == \E k \in 1..Len(g.evs) : g.evs[k].e.role = role

FloatOf(p) == p.v
WinVec(e) == PMatV([k \in 1..Len(e.out.value.items) |-> e.out.value.items[k].v])
RankProbVec(e) == PMatV([k \in 1..Len(e.out.value.items) |-> e.out.value.items[k].items[2].v])
TeamMuTotal(e, i) == RSumSeq(PMatV([j \in MemIdx(e, i) |-> Pre(e, i, j).mu]))
SigmasEqual(b, e) == N(b) = N(e) /\ \A i \in TeamIdx(b) : Len(e.teams.items[i].items) = Len(b.teams.items[i].items)
                        /\ \A j \in MemIdx(b, i) : Pre(e, i, j).sigma = Pre(b, i, j).sigma
ProbTol == "1E-12"

\* tolerance of the comparison of two observed posteriors
TwoTol(x, y, fld) == IF fld = "mu" THEN x.tmu ++ y.tmu ELSE x.tsigma ++ y.tsigma

Relation(g, e, X) ==
  LET role == e.role
      b    == First(g, "base").e
      bX   == First(g, "base").X
      okBoth == Ok(b) /\ Ok(e)
  IN
  CASE role = "base" -> {}

    \* identical inputs (values, parameters, arguments) => identical outputs      [C14, C20, C19]
    [] role = "same" ->
         IF ~(b.op = e.op /\ ArgsErased(b) = ArgsErased(e) /\ (b.op \in {"hash", "api", "cmp", "deepcopy"} \/ ModelParams(b.model0) = ModelParams(e.model0)))
           THEN {"bind.group_same_inputs_differ"}
         ELSE IF OutErased(b) = OutErased(e) THEN {} ELSE {GP(e, "same_inputs_different_result")}

    \* same weak order of the teams, however it is written => identical outputs   [C03]
    [] role = "order" ->
         IF ~(IsRateEv(b) /\ IsRateEv(e) /\ Erase(b.teams) = Erase(e.teams) /\ b.tau = e.tau /\ b.limit = e.limit
              /\ ModelParams(b.model0) = ModelParams(e.model0)
              /\ WFRateCall(b.model.kind, Call(b)) /\ WFRateCall(e.model.kind, Call(e))
              /\ SameOrder(OutcomeVals(Call(b)), OutcomeVals(Call(e))))
           THEN {"bind.group_order_not_equivalent"}
         ELSE IF OutErased(b) = OutErased(e) THEN {} ELSE {GP(e, "same_order_different_result")}

    \* same effective options => identical outputs                                [C15]
    [] role = "effopts" ->
         IF ~(IsRateEv(b) /\ IsRateEv(e) /\ Erase(b.teams) = Erase(e.teams) /\ b.ranks = e.ranks /\ b.scores = e.scores
              /\ [ModelParams(b.model0) EXCEPT !.tau = "", !.limit = ""] = [ModelParams(e.model0) EXCEPT !.tau = "", !.limit = ""]
              /\ WFRateCall(b.model.kind, Call(b)) /\ Computable(b.model0, Call(b)) /\ Computable(e.model0, Call(e))
              /\ REq(EffTau(b.model0, Call(b)), EffTau(e.model0, Call(e)))          \* model0: the settings their owner chose
              /\ EffLimit(b.model0, Call(b)) = EffLimit(e.model0, Call(e)))
           THEN {"bind.group_effopts_differ"}
         ELSE IF OutErased(b) = OutErased(e) THEN {} ELSE {GP(e, "same_effective_options_different_result")}

    \* the same game presented in another order                                   [C04, C09, C10]
    [] role = "perm" ->
         IF ~(b.op = e.op /\ ModelParams(b.model0) = ModelParams(e.model0) /\ PermutedTeamsMatch(b, e)
              /\ (IsRateEv(b) => /\ b.tau = e.tau /\ b.limit = e.limit
                                 /\ WFRateCall(b.model.kind, Call(b)) /\ WFRateCall(e.model.kind, Call(e))
                                 /\ LET vb == OutcomeVals(Call(b))  ve == OutcomeVals(Call(e))  tp == TP(e)
                                    IN  SameOrder([k \in 1..N(e) |-> vb[tp[k]]], ve)))
           THEN {"bind.group_perm_mismatch"}
         ELSE IF ~okBoth THEN {}
         ELSE IF IsRateEv(e) THEN
           IF X = <<>> \/ bX = <<>> \/ ~HasShape(e) \/ ~HasShape(b) THEN {}
           ELSE LET tp == TP(e)  mps == MPS(e)
                    vb == OutcomeVals(Call(b))
                    \* partial pairing: only permutations that keep mutually tied teams in their relative order
                    keeps == \A k1, k2 \in 1..N(e) : (k1 < k2 /\ ValEq(vb[tp[k1]], vb[tp[k2]])) => tp[k1] < tp[k2]
                    bad == {s \in AllSlots(e) :
                              LET o == Obs(e, s[1], s[2])  p == Obs(b, tp[s[1]], mps[s[1]][s[2]])
                                  x == X[s[1]][s[2]]       y == bX[tp[s[1]]][mps[s[1]][s[2]]]
                              IN  ~x.guard /\ ~y.guard /\
                                  ~(RWithin(o.mu, p.mu, TwoTol(x, y, "mu")) /\ RWithin(o.sigma, p.sigma, TwoTol(x, y, "sigma")))}
                IN  IF IsPart(e.model.kind) /\ ~keeps THEN {}
                    ELSE {Slot(GP(e, "not_equivariant"), s[1], s[2]) : s \in bad}
         ELSE IF e.op = "win" THEN
           LET tp == TP(e)  wb == WinVec(b)  we == WinVec(e)
           IN  IF \A k \in 1..N(e) : RWithin(we[k], wb[tp[k]], ProbTol) THEN {} ELSE {GP(e, "win_not_permuted")}
         ELSE IF e.op = "draw" THEN
           IF RWithin(e.out.value.v, b.out.value.v, ProbTol) THEN {} ELSE {GP(e, "draw_depends_on_order")}
         ELSE {}

    \* one member's mu raised                                                     [C09]
    [] role = "inc" ->
         LET i == RToInt(e.aux.items[1].v)  j == RToInt(e.aux.items[2].v)
         IN  IF ~(b.op = "win" /\ e.op = "win" /\ ModelParams(b.model0) = ModelParams(e.model0) /\ SigmasEqual(b, e)
                  /\ \A s \in AllSlots(b) : IF s = <<i, j>> THEN RLeq(Pre(b, i, j).mu, Pre(e, i, j).mu)
                                            ELSE Pre(e, s[1], s[2]).mu = Pre(b, s[1], s[2]).mu)
               THEN {"bind.group_inc_mismatch"}
             ELSE IF ~okBoth THEN {}
             ELSE LET wb == WinVec(b)  we == WinVec(e)  sl == "8" ** Eps
                  IN  (IF RLt(we[i] ++ sl, wb[i]) THEN {GP(e, "own_probability_lowered")} ELSE {})
                      \cup (IF \E k \in 1..N(e) : k # i /\ RLt(wb[k] ++ sl, we[k]) THEN {GP(e, "other_probability_raised")} ELSE {})

    \* two teams, wider gap between the totals                                    [C10]
    [] role = "gap" ->
         IF ~(b.op = "draw" /\ e.op = "draw" /\ N(b) = 2 /\ ModelParams(b.model0) = ModelParams(e.model0) /\ SigmasEqual(b, e)
              /\ RLeq(RAbs(TeamMuTotal(b, 1) -- TeamMuTotal(b, 2)), RAbs(TeamMuTotal(e, 1) -- TeamMuTotal(e, 2))))
           THEN {"bind.group_gap_mismatch"}
         ELSE IF ~okBoth THEN {}
         ELSE IF RLeq(e.out.value.v, b.out.value.v ++ ("8" ** Eps)) THEN {} ELSE {GP(e, "draw_increases_with_gap")}

    \* all totals equalised, sigmas unchanged                                     [C10]
    [] role = "equalised" ->
         IF ~(b.op = "draw" /\ e.op = "draw" /\ ModelParams(b.model0) = ModelParams(e.model0) /\ SigmasEqual(b, e)
              /\ \A i \in TeamIdx(e) : RWithin(TeamMuTotal(e, i), TeamMuTotal(e, 1), "1E-9" ** ("1" ++ RAbs(TeamMuTotal(e, 1)))))
           THEN {"bind.group_equalised_mismatch"}
         ELSE IF ~okBoth THEN {}
         ELSE IF RLeq(b.out.value.v, e.out.value.v ++ ("64" ** Eps)) THEN {} ELSE {GP(e, "draw_lowered_by_equalising")}

    \* predict_rank + predict_draw = 1 for three or more teams                    [C11]
    [] role = "rank_draw" ->
         IF ~(b.op = "rank" /\ e.op = "draw" /\ ModelParams(b.model0) = ModelParams(e.model0) /\ Erase(b.teams) = Erase(e.teams))
           THEN {"bind.group_rank_draw_mismatch"}
         ELSE IF ~okBoth \/ N(e) < 3 \/ ~IsRankList(b.out.value, N(b)) THEN {}
         ELSE IF RWithin(RSumSeq(RankProbVec(b)) ++ e.out.value.v, "1", ProbTol) THEN {} ELSE {GP(e, "rank_plus_draw_not_one")}

    \* unit of the scale: everything multiplied by k                              [C16]
    [] role = "scaled" ->
         LET k == e.aux.items[1].v
             near(a, c) == RWithin(a, k ** c, "4" ** RUlp(a))
             mb == b.model0  me == e.model0
         IN  IF ~(b.op = e.op /\ me.kind = mb.kind /\ me.kappa = mb.kappa /\ me.gamma = mb.gamma /\ me.limit = mb.limit
                  /\ mb.gamma \in {"default", "one", "zero", "big"}
                  /\ near(me.beta, mb.beta) /\ near(me.tau, mb.tau) /\ near(me.mu, mb.mu) /\ near(me.sigma, mb.sigma)
                  /\ N(b) = N(e) /\ \A i \in TeamIdx(b) : Len(e.teams.items[i].items) = Len(b.teams.items[i].items)
                  /\ \A s \in AllSlots(b) : near(Pre(e, s[1], s[2]).mu, Pre(b, s[1], s[2]).mu) /\ near(Pre(e, s[1], s[2]).sigma, Pre(b, s[1], s[2]).sigma)
                  /\ (IsRateEv(b) => b.ranks = e.ranks /\ b.scores = e.scores /\ b.limit = e.limit /\ IsNone(b.tau) /\ IsNone(e.tau)))
               THEN {"bind.group_scaled_mismatch"}
             ELSE IF ~okBoth THEN {}
             ELSE IF IsRateEv(e) THEN
               IF IsTM(me.kind) \/ X = <<>> \/ bX = <<>> \/ ~HasShape(e) \/ ~HasShape(b) THEN {}
               ELSE LET bad == {s \in AllSlots(e) :
                                  LET o == Obs(e, s[1], s[2])  p == Obs(b, s[1], s[2])
                                      x == X[s[1]][s[2]]       y == bX[s[1]][s[2]]
                                  IN  ~(RWithin(o.mu, k ** p.mu, "2" ** (x.tmu ++ (k ** y.tmu)))
                                        /\ RWithin(o.sigma, k ** p.sigma, "2" ** (x.tsigma ++ (k ** y.tsigma))))}
                    IN  {Slot(GP(e, "not_scale_covariant"), s[1], s[2]) : s \in bad}
             ELSE IF e.op = "win" THEN
               (IF \A i \in 1..N(e) : RWithin(WinVec(e)[i], WinVec(b)[i], ProbTol) THEN {} ELSE {GP(e, "win_depends_on_unit")})
             ELSE IF e.op = "draw" THEN
               (IF RWithin(e.out.value.v, b.out.value.v, ProbTol) THEN {} ELSE {GP(e, "draw_depends_on_unit")})
             \* the probabilities agree within the tolerance; the ranks - a discontinuous function of them - agree in ORDER for every
             \* pair of teams the base separates by more than the tolerance can move them (two teams one ulp apart may tie in one
             \* unit and not in the other: found by the thorough tier, 12.11)
             ELSE (IF /\ \A i \in 1..N(e) : RWithin(RankProbVec(e)[i], RankProbVec(b)[i], ProbTol)
                      /\ \A i, j \in 1..N(e) : RLt(RankProbVec(b)[j] ++ R2(ProbTol), RankProbVec(b)[i])
                                                  => RToInt(e.out.value.items[i].items[1].v) < RToInt(e.out.value.items[j].items[1].v)
                   THEN {} ELSE {GP(e, "rank_depends_on_unit")})

    \* origin of the scale: a constant added to every mu (equal team sizes)       [C16]
    [] role = "shifted" ->
         LET d == e.aux.items[1].v
             near(a, c) == RWithin(a, c ++ d, "4" ** (RUlp(a) ++ RUlp(c)))
         IN  IF ~(b.op = e.op /\ [ModelParams(b.model0) EXCEPT !.mu = ""] = [ModelParams(e.model0) EXCEPT !.mu = ""]
                  /\ b.model.gamma \in {"default", "one", "zero", "big"}
                  /\ SigmasEqual(b, e) /\ \A i \in TeamIdx(b) : Len(b.teams.items[i].items) = Len(b.teams.items[1].items)
                  /\ \A s \in AllSlots(b) : near(Pre(e, s[1], s[2]).mu, Pre(b, s[1], s[2]).mu)
                  /\ (IsRateEv(b) => b.ranks = e.ranks /\ b.scores = e.scores /\ b.limit = e.limit /\ b.tau = e.tau))
               THEN {"bind.group_shifted_mismatch"}
             ELSE IF ~okBoth THEN {}
             ELSE IF IsRateEv(e) THEN
               IF X = <<>> \/ bX = <<>> \/ ~HasShape(e) \/ ~HasShape(b) THEN {}
               ELSE LET bad == {s \in AllSlots(e) :
                                  LET o == Obs(e, s[1], s[2])  p == Obs(b, s[1], s[2])
                                      x == X[s[1]][s[2]]       y == bX[s[1]][s[2]]
                                  IN  ~x.guard /\ ~y.guard /\
                                      ~(RWithin(o.mu, p.mu ++ d, "2" ** (x.tmu ++ y.tmu))
                                        /\ RWithin(o.sigma, p.sigma, "2" ** (x.tsigma ++ y.tsigma)))}
                    IN  {Slot(GP(e, "not_shift_covariant"), s[1], s[2]) : s \in bad}
             ELSE IF e.op = "win" THEN
               (IF \A i \in 1..N(e) : RWithin(WinVec(e)[i], WinVec(b)[i], ProbTol) THEN {} ELSE {GP(e, "win_depends_on_origin")})
             ELSE IF e.op = "draw" THEN
               (IF RWithin(e.out.value.v, b.out.value.v, ProbTol) THEN {} ELSE {GP(e, "draw_depends_on_origin")})
             ELSE (IF /\ \A i \in 1..N(e) : RWithin(RankProbVec(e)[i], RankProbVec(b)[i], ProbTol)
                      /\ \A i, j \in 1..N(e) : RLt(RankProbVec(b)[j] ++ R2(ProbTol), RankProbVec(b)[i])
                                                  => RToInt(e.out.value.items[i].items[1].v) < RToInt(e.out.value.items[j].items[1].v)
                   THEN {} ELSE {GP(e, "rank_depends_on_origin")})

    \* the same call on another of the five model classes                         [C19]
    [] role = "model" ->
         IF ~(b.op = e.op /\ ModelNoKind(b.model0) = ModelNoKind(e.model0)
              /\ EraseOwn(b.teams, b.model.kind) = EraseOwn(e.teams, e.model.kind)
              /\ (IsRateEv(b) => /\ EraseOwn(b.ranks, b.model.kind) = EraseOwn(e.ranks, e.model.kind)
                                 /\ EraseOwn(b.scores, b.model.kind) = EraseOwn(e.scores, e.model.kind)
                                 /\ b.tau = e.tau /\ b.limit = e.limit))
           THEN {"bind.group_model_mismatch"}
         ELSE (IF b.out.kind # e.out.kind THEN {GP(e, "accepts_differently:" \o b.model.kind \o "/" \o e.model.kind)}
               ELSE IF ~Ok(e) THEN (IF b.out.exc = e.out.exc THEN {} ELSE {GP(e, "exception_class_differs:" \o b.out.exc \o "/" \o e.out.exc)})
               ELSE IF IsPredEv(e) THEN (IF OutErased(b) = OutErased(e) THEN {} ELSE {GP(e, "prediction_differs:" \o b.model.kind \o "/" \o e.model.kind)})
               ELSE IF IsRateEv(e) /\ N(e) = 2 /\ e.model.kind \in {"BTF", "BTP"}
                      THEN \* Bradley-Terry partial against Bradley-Terry full, whichever of the two came first in the group
                           LET other == IF e.model.kind = "BTP" THEN "BTF" ELSE "BTP"
                               K == {k \in 1..Len(g.evs) : g.evs[k].e.model.kind = other /\ Ok(g.evs[k].e)}
                           IN  IF K = {} THEN {}
                               ELSE LET o == g.evs[CHOOSE k \in K : TRUE].e
                                    IN  IF OutErased(o) = OutErased(e) THEN {} ELSE {GP(e, "bt_part_differs_from_full_on_two_teams")}
               ELSE {})

    \* two-team game under the three outcomes: roles base = team 1 wins, "draw", "loss"   [C05]
    [] role \in {"draw", "loss"} ->
         IF ~(IsRateEv(b) /\ IsRateEv(e) /\ N(b) = 2 /\ ModelParams(b.model0) = ModelParams(e.model0)
              /\ Erase(b.teams) = Erase(e.teams) /\ b.tau = e.tau /\ b.limit = e.limit
              /\ WFRateCall(b.model.kind, Call(b)) /\ WFRateCall(e.model.kind, Call(e))
              /\ LET vb == OutcomeVals(Call(b))  ve == OutcomeVals(Call(e))
                 IN  ValLt(vb[1], vb[2]) /\ (IF role = "draw" THEN ValEq(ve[1], ve[2]) ELSE ValLt(ve[2], ve[1])))
           THEN {"bind.group_outcome_mismatch"}
         ELSE IF ~okBoth \/ X = <<>> \/ bX = <<>> \/ ~HasShape(e) \/ ~HasShape(b) THEN {}
         ELSE
           LET m == e.model
               S == AllSlots(e)
               sgn(s) == IF s[1] = 1 THEN "1" ELSE "-1"          \* team 1 won in the base game
               tol(s) == "2" ** (X[s[1]][s[2]].tmu ++ bX[s[1]][s[2]].tmu)
               \* w >= d >= l for team 1, reversed for team 2: sgn * (base - this) >= -tol
               ordBad == {s \in S : RLt(sgn(s) ** (Obs(b, s[1], s[2]).mu -- Obs(e, s[1], s[2]).mu), RNeg(tol(s)))}
               \* prior between loss and win
               priorBad == {s \in S : \/ RLt(sgn(s) ** (Obs(b, s[1], s[2]).mu -- Pre(b, s[1], s[2]).mu), RNeg(tol(s)))
                                      \/ (role = "loss" /\ RLt(sgn(s) ** (Pre(e, s[1], s[2]).mu -- Obs(e, s[1], s[2]).mu), RNeg(tol(s))))}
               \* a draw never raises the stronger team or lowers the weaker one (TM: beyond the draw-margin term)
               t1 == TeamMuTotal(e, 1)  t2 == TeamMuTotal(e, 2)
               s2(i) == RSumSeq(PMatV([j \in MemIdx(e, i) |-> X[i][j].s2]))
               c2 == LET c0 == s2(1) ++ s2(2) ++ R2(RSq(m.beta)) IN IF m.kind = "TMP" THEN "4" ** c0 ELSE c0
               allow(s) == tol(s) ++ (IF IsTM(m.kind) THEN (R2(m.kappa) ** X[s[1]][s[2]].s2) // c2 ELSE "0")
               strong == IF RLt(t2, t1) THEN 1 ELSE IF RLt(t1, t2) THEN 2 ELSE 0
               drawBad == IF role # "draw" \/ strong = 0 THEN {}
                          ELSE {s \in S : LET dm == Obs(e, s[1], s[2]).mu -- Pre(e, s[1], s[2]).mu
                                          IN  IF s[1] = strong THEN RLt(allow(s), dm) ELSE RLt(dm, RNeg(allow(s)))}
               guard == \E s \in S : X[s[1]][s[2]].guard \/ bX[s[1]][s[2]].guard
           IN  IF guard THEN {} ELSE
               {Slot(GP(e, "outcome_order:" \o role), s[1], s[2]) : s \in ordBad}
               \cup {Slot(GP(e, "prior_not_between_loss_and_win"), s[1], s[2]) : s \in priorBad}
               \cup {Slot(GP(e, "draw_moves_wrong_way"), s[1], s[2]) : s \in drawBad}

    \* no ties: team i exchanges places with a better-placed team j (aux = [i, j])   [C05]
    [] role = "swap" ->
         LET i == RToInt(e.aux.items[1].v)  j == RToInt(e.aux.items[2].v)
         IN  IF ~(IsRateEv(b) /\ IsRateEv(e) /\ ModelParams(b.model0) = ModelParams(e.model0)
                  /\ Erase(b.teams) = Erase(e.teams) /\ b.tau = e.tau /\ b.limit = e.limit
                  /\ WFRateCall(b.model.kind, Call(b)) /\ WFRateCall(e.model.kind, Call(e))
                  /\ LET vb == OutcomeVals(Call(b))  ve == OutcomeVals(Call(e))
                     IN  /\ \A p, r \in 1..N(b) : p # r => ~ValEq(vb[p], vb[r])
                         /\ ValLt(vb[j], vb[i])
                         /\ SameOrder(ve, [k \in 1..N(b) |-> IF k = i THEN vb[j] ELSE IF k = j THEN vb[i] ELSE vb[k]]))
               THEN {"bind.group_swap_mismatch"}
             ELSE IF ~okBoth \/ X = <<>> \/ bX = <<>> \/ ~HasShape(e) \/ ~HasShape(b) \/ IsPart(e.model.kind) THEN {}
             ELSE LET bad == {l \in MemIdx(e, i) : ~X[i][l].guard /\ ~bX[i][l].guard /\
                                 RLt(Obs(e, i, l).mu, Obs(b, i, l).mu -- ("2" ** (X[i][l].tmu ++ bX[i][l].tmu)))}
                  IN  {Slot(GP(e, "better_place_lowers_mu"), i, l) : l \in bad}

    [] OTHER -> {"bind.unknown_role:" \o role}

GroupStep(g, e, X, Want) ==
  IF e.group = "" THEN [grp |-> g, fails |-> {}, cls |-> {}]
  ELSE LET rec == [e |-> e, X |-> X]
       IN  IF e.group # g.id
             THEN [grp |-> [id |-> e.group, evs |-> <<rec>>],
                   fails |-> IF e.role = "base" THEN {} ELSE {"bind.group_without_base"},
                   cls |-> {"group:" \o e.gprop \o ":" \o e.role}]
             ELSE [grp |-> [g EXCEPT !.evs = Append(@, rec)],
                   fails |-> IF ~Has(g, "base") THEN {"bind.group_without_base"}
                             ELSE IF e.gprop \in Want THEN Relation(g, e, X) ELSE {},
                   cls |-> {"group:" \o e.gprop \o ":" \o e.role}]
=============================================================================
