// TLC module override for VerifIO.tla: append a line to a file under a lock.
import java.io.BufferedWriter;
import java.io.FileWriter;
import java.io.IOException;
import java.util.HashMap;

import tlc2.value.impl.BoolValue;
import tlc2.value.impl.StringValue;
import tlc2.value.impl.Value;

public class VerifIO {
    private static final HashMap<String, BufferedWriter> OUT = new HashMap<String, BufferedWriter>();

    static {
        Runtime.getRuntime().addShutdownHook(new Thread() {
            public void run() {
                synchronized (OUT) {
                    for (BufferedWriter w : OUT.values()) {
                        try { w.close(); } catch (IOException e) { }
                    }
                }
            }
        });
    }

    public static Value EmitLine(Value file, Value line) throws IOException {
        String f = ((StringValue) file).val.toString();
        String s = ((StringValue) line).val.toString();
        synchronized (OUT) {
            BufferedWriter w = OUT.get(f);
            if (w == null) {
                w = new BufferedWriter(new FileWriter(f, true), 1 << 16);
                OUT.put(f, w);
            }
            w.write(s);
            w.write("\n");
            w.flush();
        }
        return BoolValue.ValTrue;
    }
}
