------------------------------- MODULE Stages -------------------------------
(***************************************************************************)
(* The inside of one rate call.                                            *)
(*                                                                         *)
(* Sem!RateX gives the posterior of a call in one step; the library gets   *)
(* there in stages - sort the teams by outcome value remembering where     *)
(* they came from, give every sorted position a running index, aggregate   *)
(* the teams, (partial pairing) pair the neighbours, (Plackett-Luce)       *)
(* compute c, the suffix sums and the tie sizes (the full-pairing models  *)
(* compute them too, without using them), ask the gamma callback,   *)
(* undo the sort.  Outcome.tla and Update.tla already *model* these steps  *)
(* (SortPerm, RunIdx, Pos, Ladder, Agg, PLc, PLSumQ, PairC); this module   *)
(* binds them to the values the code's own helpers were observed to take   *)
(* and return during the call (harness/stages.py; no hook in the library). *)
(*                                                                         *)
(* A stage record is [name, ints, ints2, nums, nums2, lists]; teams are    *)
(* referred to by their position in the caller's list.  The clauses have   *)
(* the prefix "S." - they belong to no listed property.                    *)
(***************************************************************************)
EXTENDS Sem

STol == "1E-12"      \* relative accuracy demanded of an intermediate sum, root or exponential

SClose(obs, x, scale) == RIsReal(obs) /\ RWithin(obs, x, STol ** scale)

StageFails(m, c, stages) ==
  LET vals  == OutcomeVals(c)
      n     == Len(vals)
      perm  == SortPerm(vals)              \* sorted position k holds input team perm[k]
      pos   == Pos(vals)                   \* input team i sits at sorted position pos[i]
      sv    == Sorted(vals, vals)
      run   == [k \in 1..n |-> RunIdx(sv, k)]
      T     == TeamsVals(c.teams)
      tau   == EffTau(m, c)
      A     == Agg(T, S2(T, tau))
      P     == ModelP(m)
      kind  == m.kind
      plc   == PLc(P, A)
      F(s)  ==
        CASE s.name = "sort" ->
               (IF s.ints # [k \in 1..n |-> perm[k]] THEN {"S.sort.order"} ELSE {})
               \cup (IF s.ints2 # [k \in 1..n |-> perm[k] - 1] THEN {"S.sort.tenet"} ELSE {})
          [] s.name = "unsort" ->
               (IF s.ints # [i \in 1..n |-> pos[i]] THEN {"S.unsort.order"} ELSE {})
          [] s.name = "rankings" ->
               (IF s.ints # [k \in 1..n |-> run[k]] THEN {"S.rankings"} ELSE {})
          [] s.name = "agg" ->
               (IF Len(s.nums) # n \/ Len(s.nums2) # n \/ Len(s.ints) # n THEN {"S.agg.shape"}
                ELSE (IF \E k \in 1..n : ~SClose(s.nums[k], A[perm[k]].mu, A[perm[k]].amu) THEN {"S.agg.mu"} ELSE {})
                     \cup (IF \E k \in 1..n : ~SClose(s.nums2[k], A[perm[k]].s2, A[perm[k]].s2) THEN {"S.agg.sigma_squared"} ELSE {})
                     \cup (IF s.ints # [k \in 1..n |-> run[k]] THEN {"S.agg.rank"} ELSE {}))
          [] s.name = "ladder" ->
               (IF Len(s.lists) # n THEN {"S.ladder.shape"}
                ELSE IF \E k \in 1..n : {s.lists[k][x] : x \in 1..Len(s.lists[k])} # ({k - 1, k + 1} \cap (1..n))
                       THEN {"S.ladder.neighbours"}
                     \* the same fact through the rule's own definition (neighbours of input team perm[k])
                     ELSE IF \E k \in 1..n : {perm[s.lists[k][x]] : x \in 1..Len(s.lists[k])} # Ladder(vals, perm[k])
                       THEN {"S.ladder.rule"} ELSE {})
          [] s.name = "c" ->
               (IF Len(s.nums) # 1 THEN {"S.c.shape"}
                ELSE IF ~SClose(s.nums[1], plc, plc) THEN {"S.c"} ELSE {})
          [] s.name = "sum_q" ->
               (IF Len(s.nums) # n THEN {"S.sum_q.shape"}
                ELSE LET sq == PLSumQ(A, vals, PLe(A, plc))
                         \* exp(mu / c) carries the rounding of its argument: a few ulp times (1 + |mu| / c)
                         am == {A[i].amu : i \in 1..n}
                         mx == CHOOSE x \in am : \A y \in am : RLeq(y, x)
                         sc(i) == sq[i] ** ("1" ++ (mx // plc))
                     IN  IF \E k \in 1..n : ~SClose(s.nums[k], sq[perm[k]], "1000" ** sc(perm[k])) THEN {"S.sum_q"} ELSE {})
          [] s.name = "a" ->
               (IF s.ints # [k \in 1..n |-> TieSize(vals)[perm[k]]] THEN {"S.a"} ELSE {})
          [] s.name = "gamma" ->
               (IF Len(s.ints) # 3 \/ Len(s.nums) # 3 \/ Len(s.lists) # 1 \/ s.ints[1] \notin 1..n THEN {"S.gamma.shape"}
                ELSE LET i  == s.ints[1]
                         cs == IF kind = "PL" THEN {plc} ELSE {PairC(kind, P, A, i, q) : q \in Opp(kind, vals, i)}
                     IN  (IF s.ints[2] # n THEN {"S.gamma.k"} ELSE {})
                         \cup (IF s.ints[3] # run[pos[i]] THEN {"S.gamma.rank"} ELSE {})
                         \cup (IF ~\E x \in cs : SClose(s.nums[1], x, x) THEN {"S.gamma.c"} ELSE {})
                         \cup (IF ~SClose(s.nums[2], A[i].mu, A[i].amu) THEN {"S.gamma.mu"} ELSE {})
                         \cup (IF ~SClose(s.nums[3], A[i].s2, A[i].s2) THEN {"S.gamma.sigma_squared"} ELSE {})
                         \cup (IF s.lists[1] # [j \in 1..Len(T[i]) |-> j] THEN {"S.gamma.team"} ELSE {}))
          [] OTHER -> {"S.unknown_stage:" \o s.name}
      given == Given(c.ranks) \/ Given(c.scores)
      names == {stages[k].name : k \in 1..Len(stages)}
      count(nm) == Cardinality({k \in 1..Len(stages) : stages[k].name = nm})
      \* how often the callback is asked: once per team (Plackett-Luce), once per opponent otherwise
      asked == IF kind = "PL" THEN n ELSE IF IsPart(kind) THEN 2 * (n - 1) ELSE n * (n - 1)
  IN  UNION {F(stages[k]) : k \in 1..Len(stages)}
      \cup (IF "gamma" \in names /\ count("gamma") # asked THEN {"S.gamma.count"} ELSE {})
      \cup (IF "sort" \in names /\ ~given THEN {"S.sort.without_selector"} ELSE {})

StageClasses(stages) == {"stage:" \o stages[k].name : k \in 1..Len(stages)}

---------------------------------------------------------------------------
\* The inside of one prediction.  Predict.tla gives the three results in closed form; the library gets there by aggregating
\* every team (no tau), evaluating the normal CDF at one standardised difference per ordered pair (two per pair for the draw
\* band), the inverse CDF once for the draw margin, and - predict_rank - ranking the resulting vector.  Bound here: every
\* argument the CDF was evaluated at must be one of the rule's standardised differences and every one of those must have been
\* evaluated, as often as the rule has pairs; every value returned by the CDF is the CDF; the team aggregates; the quantile
\* asked for is (1 + 1/N)/2; the ranking is competition ranking of exactly the vector that is returned as probabilities.
PTol == "1E-11"
PredictStageFails(m, teams, op, stages) ==
  LET T  == TeamsVals(teams)
      n  == Len(T)
      A  == PAgg(T)
      N  == Players(T)
      mg == DrawMargin(m.beta, T)
      cnt == IF op = "win" /\ n = 2 THEN N ELSE n          \* the count in the performance variance
      sd(a, b) == PairSd(m.beta, cnt, A[a], A[b])
      d(a, b)  == A[a].mu -- A[b].mu
      pairs == {<<a, b>> \in (1..n) \X (1..n) : a # b}
      \* the standardised differences the rule evaluates the CDF at
      want == IF op = "win" THEN (IF n = 2 THEN {d(1, 2) // sd(1, 2)} ELSE {d(p[1], p[2]) // sd(p[1], p[2]) : p \in pairs})
              ELSE IF op = "draw" THEN {(mg -- d(p[1], p[2])) // sd(p[1], p[2]) : p \in pairs} \cup {(d(p[1], p[2]) -- mg) // sd(p[1], p[2]) : p \in pairs}
              ELSE {(d(p[1], p[2]) -- mg) // sd(p[1], p[2]) : p \in pairs}
      howmany == IF op = "win" THEN (IF n = 2 THEN 1 ELSE n * (n - 1)) ELSE IF op = "draw" THEN 2 * n * (n - 1) ELSE n * (n - 1)
      zclose(z, x) == RIsReal(z) /\ RWithin(z, x, (PTol ** RAbs(x)) ++ "1E-13")
      F(s) ==
        CASE s.name = "phi" ->
               (IF Len(s.nums) # howmany THEN {"S.phi.count"} ELSE {})
               \cup (IF \E i \in 1..Len(s.nums) : ~\E x \in want : zclose(s.nums[i], x) THEN {"S.phi.argument_not_of_the_rule"} ELSE {})
               \cup (IF \E x \in want : ~\E i \in 1..Len(s.nums) : zclose(s.nums[i], x) THEN {"S.phi.pair_not_evaluated"} ELSE {})
               \cup (IF \E i \in 1..Len(s.nums) : RIsReal(s.nums[i]) /\ RLt(RAbs(s.nums[i]), "37") /\
                          ~(RIsReal(s.nums2[i]) /\ RWithin(s.nums2[i], RPhi(s.nums[i]), "1E-12" ** RPhi(s.nums[i]))) THEN {"S.phi.value"} ELSE {})
          [] s.name = "phi_inv" ->
               (IF op = "win" THEN {"S.phi_inv.not_used_by_predict_win"}
                ELSE (IF ~RWithin(s.nums[1], ("1" ++ ("1" // RNorm(N))) // "2", "1E-15") THEN {"S.phi_inv.argument"} ELSE {})
                     \cup (IF ~(RIsReal(s.nums2[1]) /\ RWithin(RPhi(s.nums2[1]), s.nums[1], "1E-13")) THEN {"S.phi_inv.value"} ELSE {}))
          [] s.name = "pagg" ->
               (IF \E i \in 1..Len(s.ints) : s.ints[i] \notin 1..n THEN {"S.pagg.shape"}
                ELSE (IF \E i \in 1..Len(s.ints) : ~SClose(s.nums[i], A[s.ints[i]].mu, RSumAbsSeq(PMat([j \in 1..Len(T[s.ints[i]]) |-> T[s.ints[i]][j].mu])))
                        THEN {"S.pagg.mu"} ELSE {})
                     \cup (IF \E i \in 1..Len(s.ints) : ~SClose(s.nums2[i], A[s.ints[i]].var, A[s.ints[i]].var) THEN {"S.pagg.sigma_squared"} ELSE {})
                     \cup (IF {s.ints[i] : i \in 1..Len(s.ints)} # 1..n THEN {"S.pagg.team_not_aggregated"} ELSE {}))
          [] s.name = "rank_in" ->
               (IF op # "rank" THEN {"S.rank_in.only_predict_rank_ranks"}
                ELSE LET v == s.nums
                         rd == [i \in 1..Len(v) |-> 1 + Cardinality({q \in 1..Len(v) : RLt(v[q], v[i])})]
                     IN  (IF s.ints # rd THEN {"S.rank_in.not_competition_ranking"} ELSE {}))
          [] OTHER -> {"S.unknown_stage:" \o s.name}
  IN  UNION {F(stages[k]) : k \in 1..Len(stages)}
=============================================================================
