------------------------------- MODULE Stages -------------------------------
(***************************************************************************)
(* The inside of one rate call.                                            *)
(*                                                                         *)
(* Sem!RateX gives the posterior of a call in one step; the library gets   *)
(* there in stages - sort the teams by outcome value remembering where     *)
(* they came from, give every sorted position a running index, aggregate   *)
(* the teams, (partial pairing) pair the neighbours, (Plackett-Luce)       *)
(* compute c, the suffix sums and the tie sizes (the full-pairing models  *)
(* compute them too, without using them), ask the gamma callback,   *)
(* undo the sort.  Outcome.tla and Update.tla already *model* these steps  *)
(* (SortPerm, RunIdx, Pos, Ladder, Agg, PLc, PLSumQ, PairC); this module   *)
(* binds them to the values the code's own helpers were observed to take   *)
(* and return during the call (harness/stages.py; no hook in the library). *)
(*                                                                         *)
(* A stage record is [name, ints, ints2, nums, nums2, lists]; teams are    *)
(* referred to by their position in the caller's list.  The clauses have   *)
(* the prefix "S." - they belong to no listed property.                    *)
(***************************************************************************)
EXTENDS Sem

STol == "1E-12"      \* relative accuracy demanded of an intermediate sum, root or exponential

SClose(obs, x, scale) == RIsReal(obs) /\ RWithin(obs, x, STol ** scale)

StageFails(m, c, stages) ==
  LET vals  == OutcomeVals(c)
      n     == Len(vals)
      perm  == SortPerm(vals)              \* sorted position k holds input team perm[k]
      pos   == Pos(vals)                   \* input team i sits at sorted position pos[i]
      sv    == Sorted(vals, vals)
      run   == [k \in 1..n |-> RunIdx(sv, k)]
      T     == TeamsVals(c.teams)
      tau   == EffTau(m, c)
      A     == Agg(T, S2(T, tau))
      P     == ModelP(m)
      kind  == m.kind
      plc   == PLc(P, A)
      F(s)  ==
        CASE s.name = "sort" ->
               (IF s.ints # [k \in 1..n |-> perm[k]] THEN {"S.sort.order"} ELSE {})
               \cup (IF s.ints2 # [k \in 1..n |-> perm[k] - 1] THEN {"S.sort.tenet"} ELSE {})
          [] s.name = "unsort" ->
               (IF s.ints # [i \in 1..n |-> pos[i]] THEN {"S.unsort.order"} ELSE {})
          [] s.name = "rankings" ->
               (IF s.ints # [k \in 1..n |-> run[k]] THEN {"S.rankings"} ELSE {})
          [] s.name = "agg" ->
               (IF Len(s.nums) # n \/ Len(s.nums2) # n \/ Len(s.ints) # n THEN {"S.agg.shape"}
                ELSE (IF \E k \in 1..n : ~SClose(s.nums[k], A[perm[k]].mu, A[perm[k]].amu) THEN {"S.agg.mu"} ELSE {})
                     \cup (IF \E k \in 1..n : ~SClose(s.nums2[k], A[perm[k]].s2, A[perm[k]].s2) THEN {"S.agg.sigma_squared"} ELSE {})
                     \cup (IF s.ints # [k \in 1..n |-> run[k]] THEN {"S.agg.rank"} ELSE {}))
          [] s.name = "ladder" ->
               (IF Len(s.lists) # n THEN {"S.ladder.shape"}
                ELSE IF \E k \in 1..n : {s.lists[k][x] : x \in 1..Len(s.lists[k])} # ({k - 1, k + 1} \cap (1..n))
                       THEN {"S.ladder.neighbours"}
                     \* the same fact through the rule's own definition (neighbours of input team perm[k])
                     ELSE IF \E k \in 1..n : {perm[s.lists[k][x]] : x \in 1..Len(s.lists[k])} # Ladder(vals, perm[k])
                       THEN {"S.ladder.rule"} ELSE {})
          [] s.name = "c" ->
               (IF Len(s.nums) # 1 THEN {"S.c.shape"}
                ELSE IF ~SClose(s.nums[1], plc, plc) THEN {"S.c"} ELSE {})
          [] s.name = "sum_q" ->
               (IF Len(s.nums) # n THEN {"S.sum_q.shape"}
                ELSE LET sq == PLSumQ(A, vals, PLe(A, plc))
                         \* exp(mu / c) carries the rounding of its argument: a few ulp times (1 + |mu| / c)
                         am == {A[i].amu : i \in 1..n}
                         mx == CHOOSE x \in am : \A y \in am : RLeq(y, x)
                         sc(i) == sq[i] ** ("1" ++ (mx // plc))
                     IN  IF \E k \in 1..n : ~SClose(s.nums[k], sq[perm[k]], "1000" ** sc(perm[k])) THEN {"S.sum_q"} ELSE {})
          [] s.name = "a" ->
               (IF s.ints # [k \in 1..n |-> TieSize(vals)[perm[k]]] THEN {"S.a"} ELSE {})
          [] s.name = "gamma" ->
               (IF Len(s.ints) # 3 \/ Len(s.nums) # 3 \/ Len(s.lists) # 1 \/ s.ints[1] \notin 1..n THEN {"S.gamma.shape"}
                ELSE LET i  == s.ints[1]
                         cs == IF kind = "PL" THEN {plc} ELSE {PairC(kind, P, A, i, q) : q \in Opp(kind, vals, i)}
                     IN  (IF s.ints[2] # n THEN {"S.gamma.k"} ELSE {})
                         \cup (IF s.ints[3] # run[pos[i]] THEN {"S.gamma.rank"} ELSE {})
                         \cup (IF ~\E x \in cs : SClose(s.nums[1], x, x) THEN {"S.gamma.c"} ELSE {})
                         \cup (IF ~SClose(s.nums[2], A[i].mu, A[i].amu) THEN {"S.gamma.mu"} ELSE {})
                         \cup (IF ~SClose(s.nums[3], A[i].s2, A[i].s2) THEN {"S.gamma.sigma_squared"} ELSE {})
                         \cup (IF s.lists[1] # [j \in 1..Len(T[i]) |-> j] THEN {"S.gamma.team"} ELSE {}))
          [] OTHER -> {"S.unknown_stage:" \o s.name}
      given == Given(c.ranks) \/ Given(c.scores)
      names == {stages[k].name : k \in 1..Len(stages)}
      count(nm) == Cardinality({k \in 1..Len(stages) : stages[k].name = nm})
      \* how often the callback is asked: once per team (Plackett-Luce), once per opponent otherwise
      asked == IF kind = "PL" THEN n ELSE IF IsPart(kind) THEN 2 * (n - 1) ELSE n * (n - 1)
  IN  UNION {F(stages[k]) : k \in 1..Len(stages)}
      \cup (IF "gamma" \in names /\ count("gamma") # asked THEN {"S.gamma.count"} ELSE {})
      \cup (IF "sort" \in names /\ ~given THEN {"S.sort.without_selector"} ELSE {})

StageClasses(stages) == {"stage:" \o stages[k].name : k \in 1..Len(stages)}
=============================================================================
