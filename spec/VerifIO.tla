------------------------------- MODULE VerifIO -------------------------------
(* Side-effecting helper for emitting TLC's transitions: append one line to a  *)
(* file.  Implemented by VerifIO.class (synchronized, so 16 workers do not     *)
(* interleave); always TRUE.                                                   *)
EmitLine(file, line) == TRUE
=============================================================================
