------------------------------- MODULE Threads -------------------------------
(***************************************************************************)
(* Callers' threads sharing one model object (property C14, last clause).  *)
(* The library starts no threads; the only location shared between calls   *)
(* made on disjoint ratings through one model is the model object itself.  *)
(*                                                                         *)
(* A call by thread t is split at its accesses to the shared model:        *)
(*   Begin(t, arg)   the call starts; arg is its per-call limit_sigma       *)
(*                   argument ("none", "T" or "F")                         *)
(*   Read(t, a)      the call reads attribute a of the model and gets the   *)
(*                   CURRENT value (any number of reads, any order - the   *)
(*                   specification does not encode how often the code      *)
(*                   happens to read self.beta)                            *)
(*   Write(t)        ONLY under LimitSigmaWriteBack (the repaired defect): *)
(*                   the call stores its argument in model.limit           *)
(*   End(t)          the call returns; the option it resolved is its       *)
(*                   argument or, without one, the model's limit as last   *)
(*                   read (under the defect: always the model's limit as   *)
(*                   read after its own write)                             *)
(*                                                                         *)
(* ModelReadOnly:       no step changes the model.                         *)
(* ResultIsSequential:  every finished call resolved exactly what it would *)
(*                      resolve running alone on the model as constructed. *)
(***************************************************************************)
EXTENDS Naturals, FiniteSets, TLC

CONSTANTS Threads,              \* set of thread ids
          MaxReads,             \* bound on the reads of one call (bounded instance only)
          LimitSigmaWriteBack,  \* TRUE only in negative controls
          Constructed           \* the model as constructed: [limit |-> "T"|"F", tau |-> .., ..]

Attrs == DOMAIN Constructed
Args  == {"none", "T", "F"}

VARIABLES model, ts
tvars == <<model, ts>>

Idle == [pc |-> "idle", arg |-> "none", reads |-> 0, seen |-> "unread", wrote |-> FALSE, res |-> "none"]

TInit == /\ model = Constructed
         /\ ts = [t \in Threads |-> Idle]

Begin(t, arg) == /\ ts[t].pc = "idle"
                 /\ ts' = [ts EXCEPT ![t] = [Idle EXCEPT !.pc = "running", !.arg = arg]]
                 /\ UNCHANGED model

\* a read returns the current value; the call remembers the last value of limit it saw
Read(t, a) == /\ ts[t].pc = "running" /\ ts[t].reads < MaxReads
              /\ ts' = [ts EXCEPT ![t].reads = @ + 1, ![t].seen = IF a = "limit" THEN model.limit ELSE @]
              /\ UNCHANGED model

Write(t) == /\ LimitSigmaWriteBack
            /\ ts[t].pc = "running" /\ ts[t].arg # "none" /\ ~ts[t].wrote
            /\ model' = [model EXCEPT !.limit = ts[t].arg]
            /\ ts' = [ts EXCEPT ![t].wrote = TRUE, ![t].seen = "unread"]

\* the call resolves its option and returns
CanEnd(t) == /\ ts[t].pc = "running"
             /\ IF LimitSigmaWriteBack THEN (ts[t].arg # "none" => ts[t].wrote) /\ ts[t].seen # "unread"
                ELSE ts[t].arg = "none" => ts[t].seen # "unread"
End(t) == /\ CanEnd(t)
          /\ ts' = [ts EXCEPT ![t].pc = "done",
                              ![t].res = IF LimitSigmaWriteBack \/ ts[t].arg = "none" THEN ts[t].seen ELSE ts[t].arg]
          /\ UNCHANGED model

TNext == \E t \in Threads : \/ \E arg \in Args : Begin(t, arg)
                            \/ \E a \in Attrs : Read(t, a)
                            \/ Write(t)
                            \/ End(t)
TSpec == TInit /\ [][TNext]_tvars

ModelReadOnly == [][model' = model]_tvars
ResultIsSequential == \A t \in Threads : ts[t].pc = "done" =>
                         ts[t].res = (IF ts[t].arg = "none" THEN Constructed.limit ELSE ts[t].arg)
=============================================================================
