------------------------------- MODULE Extras -------------------------------
(***************************************************************************)
(* The rest of the library's surface - what a program sees besides rate    *)
(* and the predictions, and the module-level helpers they are built from:  *)
(*                                                                         *)
(*   text        repr() and str() of ratings, team ratings and models      *)
(*   team rating the aggregate objects: constructor (floats), ==, hash     *)
(*   helpers     _unary_minus, _arg_sort, _rank_data, _matrix_transpose,   *)
(*               _unwind, _ladder_pairs, phi_major_inverse, phi_minor,     *)
(*               the default gamma callback of every model                 *)
(*   registry    openskill.models.MODELS: which classes, in which order    *)
(*   create_rating   which malformed argument raises which exception       *)
(*                                                                         *)
(* None of this is one of the listed properties (the clauses carry the     *)
(* prefix "X."); it is specified because the listed properties are built   *)
(* on it: predict_rank is RankData of the probabilities, rate is Unwind    *)
(* twice around the update, partial pairing is LadderPairs, the draw       *)
(* margin is the inverse CDF.  Each helper is stated as a RULE (what the   *)
(* result must satisfy), not as the code's loop, and the rules themselves  *)
(* are model-checked against their definitions in MC_Extras.               *)
(*                                                                         *)
(* An observation is [op |-> "extra", what, a, b, c, out]: a, b, c PyVals. *)
(***************************************************************************)
EXTENDS Sem

---------------------------------------------------------------------------
\* class names and display names, by kind
ClassName(k) == CASE k = "PL" -> "PlackettLuce" [] k = "BTF" -> "BradleyTerryFull" [] k = "BTP" -> "BradleyTerryPart"
                  [] k = "TMF" -> "ThurstoneMostellerFull" [] k = "TMP" -> "ThurstoneMostellerPart"
Display(k)   == CASE k = "PL" -> "Plackett-Luce" [] k = "BTF" -> "Bradley-Terry Full Pairing" [] k = "BTP" -> "Bradley-Terry Partial Pairing"
                  [] k = "TMF" -> "Thurstone-Mosteller Full Pairing" [] k = "TMP" -> "Thurstone-Mosteller Partial Pairing"
\* the registry lists the five classes in this order
ModelsOrder == <<"PL", "BTF", "BTP", "TMF", "TMP">>

\* a number is shown as Python shows it (repr of the float or int held): the observation carries that numeral
ReprRating(k, mu, sigma) == ClassName(k) \o "Rating(mu=" \o mu \o ", sigma=" \o sigma \o ")"
StrRating(k, id, hasName, name, mu, sigma) ==
  Display(k) \o " Player Data: \n\nid: " \o id \o "\n" \o (IF hasName THEN "name: " \o name \o "\n" ELSE "")
  \o "mu: " \o mu \o "\nsigma: " \o sigma \o "\n"
ReprModel(k, mu, sigma) == ClassName(k) \o "(mu=" \o mu \o ", sigma=" \o sigma \o ")"
StrModel(k, mu, sigma)  == Display(k) \o " Model Parameters: \n\nmu: " \o mu \o "\nsigma: " \o sigma \o "\n"
ReprTeam(k, mu, s2)     == ClassName(k) \o "TeamRating(mu=" \o mu \o ", sigma_squared=" \o s2 \o ")"
StrTeam(k, mu, s2, rank) == ClassName(k) \o "TeamRating Details:\n\nmu: " \o mu \o "\nsigma_squared: " \o s2 \o "\nrank: " \o rank \o "\n"

---------------------------------------------------------------------------
\* helpers as rules.  Vectors are sequences of numerals (strings).
NumLeq(a, b) == RLeq(a, b)
IsPermutation(p, n) == Len(p) = n /\ \A i \in 1..n : \E k \in 1..n : p[k] = i

\* _arg_sort(v): the indices (0-based in the code, 1-based here) that sort v; equal values keep their order
ArgSortOk(v, p) ==
  LET n == Len(v)
  IN  /\ IsPermutation(p, n)
      /\ \A k \in 1..(n - 1) : RLt(v[p[k]], v[p[k + 1]]) \/ (REq(v[p[k]], v[p[k + 1]]) /\ p[k] < p[k + 1])
\* the function itself, for the design-level check: position of i = 1 + #smaller + #equal before it
ArgSortPos(v, i) == 1 + Cardinality({q \in 1..Len(v) : RLt(v[q], v[i]) \/ (REq(v[q], v[i]) /\ q < i)})
ArgSort(v) == [k \in 1..Len(v) |-> CHOOSE i \in 1..Len(v) : ArgSortPos(v, i) = k]

\* _rank_data(v): competition ranking, 1 + number of strictly smaller values ("1224")
RankData(v) == [i \in 1..Len(v) |-> 1 + Cardinality({q \in 1..Len(v) : RLt(v[q], v[i])})]

\* _matrix_transpose(m): rows become columns, truncated to the shortest row (zip)
MinLen(m) == IF m = <<>> THEN 0 ELSE CHOOSE k \in {Len(m[r]) : r \in 1..Len(m)} : \A r \in 1..Len(m) : k <= Len(m[r])
Transpose(m) == [c \in 1..MinLen(m) |-> [r \in 1..Len(m) |-> m[r][c]]]

\* _unwind(tenet, objects): objects in non-decreasing order of their tenet, stably, and for each sorted position the
\* index it came from (the second result; feeding it back as the tenet undoes the sort)
UnwindOrder(tenet) == ArgSort(tenet)

\* _ladder_pairs(xs): for position k the neighbours k-1 and k+1 that exist, in that order
LadderPairs(n) == [k \in 1..n |-> (IF k > 1 THEN <<k - 1>> ELSE <<>>) \o (IF k < n THEN <<k + 1>> ELSE <<>>)]

---------------------------------------------------------------------------
\* decoding of observations
Nums(p) == [k \in 1..Len(p.items) |-> p.items[k].v]
AllNum(p) == IsList(p) /\ \A k \in 1..Len(p.items) : IsFinite(p.items[k])
Ints(p) == [k \in 1..Len(p.items) |-> RToInt(p.items[k].v)]
AllInt(p) == IsList(p) /\ \A k \in 1..Len(p.items) : p.items[k].t = "int"
OkVal(e) == e.out.kind = "ok"
Text(e) == e.out.value.t = "str"

XTol == "1E-12"
CreateWFX(arg) == IsList(arg) /\ Len(arg.items) = 2 /\ IsNum(arg.items[1]) /\ IsNum(arg.items[2])

ExtraFails(e) ==
  LET w == e.what
      a == e.a  b == e.b  c == e.c
      o == e.out.value
  IN
  CASE w = "repr_rating" ->
         IF OkVal(e) /\ Text(e) /\ o.v = ReprRating(a.v, a.mu, a.sigma) THEN {} ELSE {"X.repr_rating"}
    [] w = "str_rating" ->
         IF OkVal(e) /\ Text(e) /\ o.v = StrRating(a.v, a.uid, a.nt = "str" /\ a.nm # "", a.nm, a.mu, a.sigma) THEN {} ELSE {"X.str_rating"}
    [] w = "repr_model" ->
         IF OkVal(e) /\ Text(e) /\ o.v = ReprModel(a.v, b.items[1].v, b.items[2].v) THEN {} ELSE {"X.repr_model"}
    [] w = "str_model" ->
         IF OkVal(e) /\ Text(e) /\ o.v = StrModel(a.v, b.items[1].v, b.items[2].v) THEN {} ELSE {"X.str_model"}
    [] w = "repr_team" ->
         IF OkVal(e) /\ Text(e) /\ o.v = ReprTeam(a.v, b.items[1].v, b.items[2].v) THEN {} ELSE {"X.repr_team"}
    [] w = "str_team" ->
         IF OkVal(e) /\ Text(e) /\ o.v = StrTeam(a.v, b.items[1].v, b.items[2].v, b.items[3].v) THEN {} ELSE {"X.str_team"}
    \* a team rating built from (mu, sigma_squared, team, rank) holds mu and sigma_squared as floats of the same value
    [] w = "team_fields" ->
         IF OkVal(e) /\ IsList(o) /\ Len(o.items) = 3 /\ o.items[1].t = "float" /\ o.items[2].t = "float"
            /\ REq(o.items[1].v, b.items[1].v) /\ REq(o.items[2].v, b.items[2].v) /\ o.items[3] = b.items[3] THEN {} ELSE {"X.team_fields"}
    \* two team ratings are equal exactly when mu, sigma_squared, rank and the member lists are; equal ones hash alike
    [] w = "team_eq" ->
         LET same == REq(b.items[1].v, c.items[1].v) /\ REq(b.items[2].v, c.items[2].v) /\ b.items[3] = c.items[3] /\ b.items[4] = c.items[4]
         IN  IF OkVal(e) /\ o.t = "bool" /\ (o.v = "1") = same THEN {} ELSE {"X.team_eq"}
    [] w = "team_hash_equal" ->
         IF OkVal(e) /\ o.t = "bool" /\ o.v = "1" THEN {} ELSE {"X.team_hash"}
    [] w = "unary_minus" ->
         IF ~IsFinite(a) THEN {} ELSE IF OkVal(e) /\ IsNum(o) /\ REq(o.v, RNeg(a.v)) THEN {} ELSE {"X.unary_minus"}
    [] w = "arg_sort" ->
         IF ~AllNum(a) THEN {}
         ELSE IF OkVal(e) /\ AllInt(o) /\ Len(o.items) = Len(a.items)
                 /\ ArgSortOk(Nums(a), [k \in 1..Len(o.items) |-> Ints(o)[k] + 1]) THEN {} ELSE {"X.arg_sort"}
    [] w = "rank_data" ->
         IF ~AllNum(a) THEN {}
         ELSE IF OkVal(e) /\ AllInt(o) /\ Ints(o) = RankData(Nums(a)) THEN {} ELSE {"X.rank_data"}
    [] w = "transpose" ->      \* a: list of rows of ints
         LET m == [r \in 1..Len(a.items) |-> Ints(a.items[r])]
         IN  IF OkVal(e) /\ IsList(o) /\ [r \in 1..Len(o.items) |-> Ints(o.items[r])] = Transpose(m)
                /\ \A r \in 1..Len(o.items) : IsList(o.items[r]) THEN {} ELSE {"X.transpose"}
    [] w = "unwind" ->         \* a: tenet (numbers), b: objects (ints); out: [sorted objects, their original 0-based indices]
         IF ~AllNum(a) THEN {}
         ELSE LET ord == UnwindOrder(Nums(a))  n == Len(a.items)
              IN  IF OkVal(e) /\ Len(o.items) = 2 /\ AllInt(o.items[1]) /\ AllInt(o.items[2])
                     /\ Ints(o.items[1]) = [k \in 1..n |-> Ints(b)[ord[k]]]
                     /\ Ints(o.items[2]) = [k \in 1..n |-> ord[k] - 1] THEN {} ELSE {"X.unwind"}
    [] w = "unwind_roundtrip" ->   \* sorting by a tenet, then by the returned indices, restores the objects
         IF OkVal(e) /\ o = b THEN {} ELSE {"X.unwind_roundtrip"}
    [] w = "ladder_pairs" ->    \* a: list of distinct positive ints 1..n in order; out: list of neighbour lists
         LET n == Len(a.items)
         IN  IF OkVal(e) /\ IsList(o) /\ Len(o.items) = n
                /\ \A k \in 1..n : AllInt(o.items[k]) /\ Ints(o.items[k]) = [x \in 1..Len(LadderPairs(n)[k]) |-> Ints(a)[LadderPairs(n)[k][x]]]
             THEN {} ELSE {"X.ladder_pairs"}
    [] w = "phi_minor" ->
         IF ~IsFinite(a) \/ RLt("38", RAbs(a.v)) THEN {}
         ELSE IF OkVal(e) /\ IsFinite(o) /\ RWithin(o.v, RPdf(a.v), (XTol ** RPdf(a.v)) ++ "1E-320") THEN {} ELSE {"X.phi_minor"}
    [] w = "phi_major_inverse" ->     \* p in (0, 1): the quantile, checked through the CDF (relative 1e-12 on the tail mass it cuts off)
         IF ~IsFinite(a) \/ ~RPos(a.v) \/ ~RLt(a.v, "1") THEN {}
         ELSE IF ~(OkVal(e) /\ IsFinite(o)) THEN {"X.phi_major_inverse"}
         ELSE LET p == a.v
                  q == RPhi(o.v)
                  tail == RMin(p, "1" -- p)
              IN  IF RWithin(q, p, ("1E-11" ** tail) ++ "2.3E-16") THEN {} ELSE {"X.phi_major_inverse"}
    [] w = "gamma_default" ->   \* a: kind; b: [c, sigma_squared]; out: sqrt(sigma_squared) / c
         IF OkVal(e) /\ IsFinite(o) /\ RWithin(o.v, RSqrt(b.items[2].v) // b.items[1].v, XTol ** (RSqrt(b.items[2].v) // b.items[1].v))
           THEN {} ELSE {"X.gamma_default"}
    [] w = "models_registry" -> \* out: the kinds of openskill.models.MODELS, in order
         IF OkVal(e) /\ IsList(o) /\ [k \in 1..Len(o.items) |-> o.items[k].v] = ModelsOrder THEN {} ELSE {"X.models_registry"}
    \* create_rating(x): a rating object -> TypeError; a list of exactly two -> ValueError if an element is not a number;
    \* everything else (wrong length, tuple, number, None, str, dict) -> TypeError
    [] w = "create_error" ->
         LET want == IF IsRating(a) \/ ~IsList(a) \/ Len(a.items) # 2 THEN "TypeError" ELSE "ValueError"
         IN  IF CreateWFX(a) THEN (IF OkVal(e) THEN {} ELSE {"X.create_rejected_wellformed"})
             ELSE IF e.out.kind = "raise" /\ e.out.exc = want THEN {} ELSE {"X.create_error_class"}
    [] OTHER -> {"bind.unknown_extra:" \o w}

ExtraClasses(e) == {"extra=" \o e.what}
=============================================================================
