------------------------------ MODULE MC_Extras ------------------------------
(***************************************************************************)
(* Design-level check of the helper rules of Extras.tla against their      *)
(* definitions and against each other, for every vector up to MaxLen over  *)
(* a set of values with int/float twins (so that ties between "2" and      *)
(* "2.0" occur):                                                           *)
(*   ArgSort is a stable sorting permutation; RankData is competition      *)
(*   ranking (1 + #smaller, ties share, gaps after ties);                  *)
(*   predict_rank's rule (Predict!RankOf) is RankData reversed against its *)
(*   maximum - the way the library computes it;                            *)
(*   sorting by a tenet and then by the returned indices restores the      *)
(*   input (the two _unwind calls around the update);                      *)
(*   LadderPairs is symmetric and links exactly the adjacent positions;    *)
(*   Transpose is an involution on rectangular matrices.                   *)
(***************************************************************************)
EXTENDS Extras, FiniteSetsExt

CONSTANTS FloatRankUsesIndex, TauZeroFallsBack, MaxLen

VARIABLE v
Vals == {"1", "2", "2.0", "-1", "0.5"}
Vecs == UNION {[1..n -> Vals] : n \in 0..MaxLen}

Init == v \in Vecs
Next == UNCHANGED v
Spec == Init /\ [][Next]_v

N == Len(v)
Inv_ArgSort == LET p == ArgSort(v) IN IsPermutation(p, N) /\ ArgSortOk(v, p)
Inv_RankData ==
  LET r == RankData(v)
  IN  /\ \A i, j \in 1..N : (RLt(v[i], v[j]) => r[i] < r[j]) /\ (REq(v[i], v[j]) => r[i] = r[j])
      /\ (N > 0 => \E i \in 1..N : r[i] = 1)
      \* competition ranking: a rank is 1 + the number of entries ranked strictly better
      /\ \A i \in 1..N : r[i] = 1 + Cardinality({j \in 1..N : r[j] < r[i]})
\* the rule of predict_rank, as the library computes it: rank_data, then reversed against the maximum
Inv_RankOfIsReversedRankData ==
  N > 0 => LET r == RankData(v)
               mx == Max({r[i] : i \in 1..N})
           IN  RankOf(v) = [i \in 1..N |-> (mx - r[i]) + 1]
\* ... and that rule satisfies what C11 demands whenever probabilities are all different or all equal; with partial ties
\* it does not number the ranks 1..k without gaps but still orders them (RankConsistent does not ask for more)
Inv_RankOfConsistent == N > 0 => RankConsistent(RankOf(v), v)
Inv_UnwindRoundTrip ==
  LET ord == UnwindOrder(v)                              \* sorted position k holds input index ord[k]
      back == UnwindOrder([k \in 1..N |-> ToString(ord[k])])  \* sorting the returned indices
  IN  [k \in 1..N |-> ord[back[k]]] = [k \in 1..N |-> k]
Inv_Ladder ==
  LET L == LadderPairs(N)
      nb(k) == {L[k][x] : x \in 1..Len(L[k])}
  IN  \A k, j \in 1..N : (j \in nb(k) <=> k \in nb(j)) /\ (j \in nb(k) <=> (j = k - 1 \/ j = k + 1))
Inv_Transpose ==
  \A rows \in 1..3 : (N > 0 /\ N % rows = 0) =>
     LET cols == N \div rows
         m == [r \in 1..rows |-> [c \in 1..cols |-> v[(r - 1) * cols + c]]]
     IN  Transpose(Transpose(m)) = m /\ Len(Transpose(m)) = cols
=============================================================================
