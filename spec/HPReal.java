// TLC module override for HPReal.tla: real-number arithmetic on java.math.BigDecimal.
// Values are carried through TLC as strings (canonical decimal numerals, 40 significant
// digits).  Transcendental functions work at WP digits internally and round once.
//
// Build: javac -cp /opt/veriftools/tla/tla2tools.jar HPReal.java   (class must sit next to HPReal.tla)

import java.math.BigDecimal;
import java.math.BigInteger;
import java.math.MathContext;
import java.math.RoundingMode;

import tlc2.value.impl.BoolValue;
import tlc2.value.impl.IntValue;
import tlc2.value.impl.StringValue;
import tlc2.value.impl.Value;

public class HPReal {
    static final int OUT = 40;                 // significant digits of every result
    static final int WP = 70;                  // working digits inside transcendental functions
    static final MathContext MCO = new MathContext(OUT, RoundingMode.HALF_EVEN);
    static final MathContext MCW = new MathContext(WP, RoundingMode.HALF_EVEN);
    static final MathContext MCX = new MathContext(WP + 50, RoundingMode.HALF_EVEN); // erf near cancellation

    static final BigDecimal ZERO = BigDecimal.ZERO, ONE = BigDecimal.ONE, TWO = BigDecimal.valueOf(2);
    static final BigDecimal HALF = new BigDecimal("0.5");
    // 130 digits each (mpmath)
    static final BigDecimal LN10 = new BigDecimal(
        "2.302585092994045684017991454684364207601101488628772976033327900967572609677352480235997205089598298341967784042286248633409525465082806756666287369098781689483");
    static final BigDecimal PI = new BigDecimal(
        "3.141592653589793238462643383279502884197169399375105820974944592307816406286208998628034825342117067982148086513282306647093844609550582231725359408128481117450");
    static final BigDecimal SQRT2 = sqrt(TWO, MCX);
    static final BigDecimal SQRTPI = sqrt(PI, MCX);
    static final BigDecimal SQRT2PI = sqrt(PI.multiply(TWO), MCX);

    // ---------------------------------------------------------------- conversions
    static BigDecimal bd(Value v) {
        if (v instanceof StringValue) {
            String s = ((StringValue) v).val.toString();
            try {
                return new BigDecimal(s);
            } catch (NumberFormatException e) {
                throw new RuntimeException("HPReal: not a real numeral: \"" + s + "\"");
            }
        }
        if (v instanceof IntValue) return BigDecimal.valueOf(((IntValue) v).val);
        throw new RuntimeException("HPReal: expected a real (string) but got " + v);
    }

    static Value sv(BigDecimal x) {
        BigDecimal r = x.round(MCO);
        if (r.signum() == 0) return new StringValue("0");
        r = r.stripTrailingZeros();
        return new StringValue(r.toString());
    }

    static Value bool(boolean b) { return b ? BoolValue.ValTrue : BoolValue.ValFalse; }

    // ---------------------------------------------------------------- numerics
    static BigDecimal sqrt(BigDecimal x, MathContext mc) {
        if (x.signum() < 0) throw new RuntimeException("HPReal: sqrt of a negative number " + x);
        if (x.signum() == 0) return ZERO;
        return x.sqrt(mc);
    }

    // exp(x) to about mc digits
    static BigDecimal exp(BigDecimal x, MathContext mc) {
        if (x.signum() == 0) return ONE;
        MathContext w = new MathContext(mc.getPrecision() + 12, RoundingMode.HALF_EVEN);
        // x = k ln10 + r, |r| <= ln10/2
        BigDecimal kk = x.divide(LN10, w).setScale(0, RoundingMode.HALF_EVEN);
        if (kk.abs().compareTo(BigDecimal.valueOf(1000000000L)) > 0)
            throw new RuntimeException("HPReal: exp argument out of range " + x);
        int k = kk.intValueExact();
        BigDecimal r = x.subtract(kk.multiply(LN10), w);
        // halve 8 times
        r = r.divide(BigDecimal.valueOf(256), w);
        BigDecimal term = ONE, sum = ONE;
        BigDecimal eps = BigDecimal.ONE.scaleByPowerOfTen(-(w.getPrecision() + 2));
        for (int n = 1; n < 400; n++) {
            term = term.multiply(r, w).divide(BigDecimal.valueOf(n), w);
            sum = sum.add(term, w);
            if (term.abs().compareTo(eps) < 0) break;
        }
        for (int i = 0; i < 8; i++) sum = sum.multiply(sum, w);
        return sum.scaleByPowerOfTen(k).round(mc);
    }

    // erfc(z) for z >= 0, relative accuracy about WP digits
    static BigDecimal erfcPos(BigDecimal z) {
        if (z.signum() == 0) return ONE;
        if (z.compareTo(BigDecimal.valueOf(3)) < 0) {
            // erf(z) = 2/sqrt(pi) * exp(-z^2) * sum_{n>=0} 2^n z^(2n+1) / (1*3*...*(2n+1)); all terms positive
            MathContext w = MCX;
            BigDecimal z2 = z.multiply(z, w);
            BigDecimal term = z, sum = z;
            BigDecimal eps = BigDecimal.ONE.scaleByPowerOfTen(-(w.getPrecision() + 2));
            for (int n = 1; n < 2000; n++) {
                term = term.multiply(z2, w).multiply(TWO, w).divide(BigDecimal.valueOf(2L * n + 1), w);
                sum = sum.add(term, w);
                if (term.compareTo(eps.multiply(sum, w)) < 0) break;
            }
            BigDecimal erf = sum.multiply(TWO, w).divide(SQRTPI, w).multiply(exp(z2.negate(), w), w);
            return ONE.subtract(erf, w);   // erfc(3) = 2e-5: five digits lost out of 120
        }
        // continued fraction, evaluated backwards:
        // erfc(z) = exp(-z^2)/sqrt(pi) * 1/(z + (1/2)/(z + 1/(z + (3/2)/(z + 2/(z + ...)))))
        MathContext w = MCW;
        double zd = z.doubleValue();
        double need = (w.getPrecision() + 6) * 2.302585 / (2.0 * zd);
        int n = (int) Math.ceil(need * need / 2.0) + 30;
        if (n > 4000) n = 4000;
        BigDecimal f = z;
        for (int k = n; k >= 1; k--) {
            f = z.add(BigDecimal.valueOf(k).multiply(HALF).divide(f, w), w);
        }
        BigDecimal e = exp(z.multiply(z, w).negate(), w);
        return e.divide(SQRTPI, w).divide(f, w);
    }

    // Phi(x): standard normal CDF, relative accuracy ~WP digits in both tails
    static BigDecimal phi(BigDecimal x) {
        BigDecimal z = x.abs().divide(SQRT2, MCX);
        BigDecimal lower = erfcPos(z).multiply(HALF);      // = Phi(-|x|)
        if (x.signum() <= 0) return lower;
        return ONE.subtract(lower, MCX);
    }

    static BigDecimal pdf(BigDecimal x) {
        BigDecimal e = exp(x.multiply(x, MCW).multiply(HALF).negate(), MCW);
        return e.divide(SQRT2PI, MCW);
    }

    // Phi^-1(p), 0 < p < 1: Newton on phi() from a double-precision start
    static final java.util.concurrent.ConcurrentHashMap<String, BigDecimal> PHIINV_CACHE =
        new java.util.concurrent.ConcurrentHashMap<String, BigDecimal>();

    static BigDecimal phiInv(BigDecimal p) {
        String key = p.toString();
        BigDecimal c = PHIINV_CACHE.get(key);
        if (c == null) {
            c = phiInv0(p);
            if (PHIINV_CACHE.size() < 100000) PHIINV_CACHE.put(key, c);
        }
        return c;
    }

    static BigDecimal phiInv0(BigDecimal p) {
        if (p.signum() <= 0 || p.compareTo(ONE) >= 0)
            throw new RuntimeException("HPReal: PhiInv argument outside (0,1): " + p);
        if (p.compareTo(HALF) == 0) return ZERO;
        boolean upper = p.compareTo(HALF) > 0;
        BigDecimal q = upper ? ONE.subtract(p) : p;       // lower-tail probability, q < 1/2
        // start: bisection in doubles on a crude erfc (good to 1e-7 is plenty), for x in [-40, 0]
        double qd = q.doubleValue();
        double lo = -40.0, hi = 0.0;
        if (qd > 0) {
            for (int i = 0; i < 200; i++) {
                double mid = 0.5 * (lo + hi);
                double val = phi(new BigDecimal(mid)).doubleValue();
                if (val < qd) lo = mid; else hi = mid;
                if (hi - lo < 1e-9) break;
            }
        } else {
            lo = hi = -38.0;
        }
        BigDecimal x = new BigDecimal(0.5 * (lo + hi));
        for (int it = 0; it < 8; it++) {
            BigDecimal fx = phi(x).subtract(q, MCX);
            BigDecimal dx = fx.divide(pdf(x), MCW);
            x = x.subtract(dx, MCW);
            if (dx.signum() == 0 || dx.abs().compareTo(x.abs().max(ONE).scaleByPowerOfTen(-(WP - 8))) < 0) break;
        }
        return upper ? x.negate() : x;
    }

    // ---------------------------------------------------------------- operators visible to TLA+
    public static Value RAdd(Value a, Value b) { return sv(bd(a).add(bd(b), MCW)); }
    public static Value RSub(Value a, Value b) { return sv(bd(a).subtract(bd(b), MCW)); }
    public static Value RMul(Value a, Value b) { return sv(bd(a).multiply(bd(b), MCW)); }
    public static Value RDiv(Value a, Value b) {
        BigDecimal d = bd(b);
        if (d.signum() == 0) throw new RuntimeException("HPReal: division by zero (" + a + " / " + b + ")");
        return sv(bd(a).divide(d, MCW));
    }
    public static Value RNeg(Value a) { return sv(bd(a).negate()); }
    public static Value RAbs(Value a) { return sv(bd(a).abs()); }
    public static Value RSqrt(Value a) { return sv(sqrt(bd(a), MCW)); }
    public static Value RExp(Value a) { return sv(exp(bd(a), MCW)); }
    public static Value RPhi(Value a) { return sv(phi(bd(a))); }
    public static Value RPdf(Value a) { return sv(pdf(bd(a))); }
    public static Value RPhiInv(Value a) { return sv(phiInv(bd(a))); }
    public static Value RMax(Value a, Value b) { BigDecimal x = bd(a), y = bd(b); return sv(x.compareTo(y) >= 0 ? x : y); }
    public static Value RMin(Value a, Value b) { BigDecimal x = bd(a), y = bd(b); return sv(x.compareTo(y) <= 0 ? x : y); }
    public static Value RLt(Value a, Value b) { return bool(bd(a).compareTo(bd(b)) < 0); }
    public static Value RLeq(Value a, Value b) { return bool(bd(a).compareTo(bd(b)) <= 0); }
    public static Value REq(Value a, Value b) { return bool(bd(a).compareTo(bd(b)) == 0); }
    public static Value RSign(Value a) { return IntValue.gen(bd(a).signum()); }
    public static Value RWithin(Value a, Value b, Value tol) {
        return bool(bd(a).subtract(bd(b)).abs().compareTo(bd(tol)) <= 0);
    }
    public static Value RNorm(Value a) { return sv(bd(a)); }
    public static Value RIsReal(Value a) {
        if (!(a instanceof StringValue)) return BoolValue.ValFalse;
        try { new BigDecimal(((StringValue) a).val.toString()); return BoolValue.ValTrue; }
        catch (NumberFormatException e) { return BoolValue.ValFalse; }
    }
    // a * 2^k  (k may be negative); exact
    public static Value RScale2(Value a, Value k) {
        int kk = ((IntValue) k).val;
        BigDecimal p = new BigDecimal(BigInteger.ONE.shiftLeft(Math.abs(kk)));
        return sv(kk >= 0 ? bd(a).multiply(p, MCW) : bd(a).divide(p, MCW));
    }
    // the integer (as a TLC int) nearest to a, for small values
    public static Value RToInt(Value a) {
        return IntValue.gen(bd(a).setScale(0, RoundingMode.HALF_EVEN).intValueExact());
    }
    // ulp of the IEEE double nearest to a (as a real); used for "k ulp" slacks
    public static Value RUlp(Value a) {
        double d = bd(a).doubleValue();
        return sv(new BigDecimal(Math.ulp(d)));
    }
}
