---------------------------- MODULE MC_SharedArgs ----------------------------
EXTENDS SharedArgs
MCArg0 == <<3, 1, 2>>          \* not yet dense, unsorted: the first store already changes the weak order of what others read
MCArg1 == <<5, 5, 2, 9>>
=============================================================================
