----------------------------- MODULE MC_Lattice -----------------------------
(***************************************************************************)
(* Bounded instance of OpenSkill: for each model kind a fixed cast of      *)
(* rating objects with deliberately chosen, pairwise distinct values;      *)
(* EVERY game that can be formed from the cast (ordered sequences of       *)
(* disjoint non-empty teams), under EVERY weak order of its teams, for     *)
(* every listed option setting.  Cast 4: 150 + 780 + 1800 = 2730 (game,    *)
(* outcome) pairs per kind and setting.                                    *)
(*                                                                         *)
(* The call is chosen in the initial state (variable pend) and performed   *)
(* by the single step Rate(pend) of OpenSkill, so that TLC's workers share *)
(* the numeric work.  TLC checks the design-level invariants on every      *)
(* transition and emits it for replay into the real library.               *)
(***************************************************************************)
EXTENDS OpenSkill

CONSTANTS KindSet,     \* subset of {"PL", "BTF", "BTP", "TMF", "TMP"}
          SettingSet,  \* set of option-setting names, see ModelFor
          CastSize,    \* 3, 4 or 5
          MaxTeams,    \* games with up to this many teams
          OutcomeStyle \* "dense" (every weak order once) | "encodings" (rank/score vectors over mixed values)

VARIABLE pend

KindSeq == <<"PL", "BTF", "BTP", "TMF", "TMP">>
SettingSeq == SetToSeq(SettingSet)
NS == Len(SettingSeq)
Beta0  == "4.166666666666667"
Sigma0 == "8.333333333333334"
Tau0   == "0.08333333333333333"

BaseModel(kind) == [id |-> 0, kind |-> kind, mu |-> "25.0", sigma |-> Sigma0, beta |-> Beta0, kappa |-> "0.0001",
                    tau |-> Tau0, limit |-> "F", gamma |-> "default", extra |-> ""]

\* option settings: model-level parameters ...
ModelFor(kind, setting) ==
  LET b == BaseModel(kind)
  IN  CASE setting = "default"     -> b
        [] setting = "tau0_call"   -> b
        [] setting = "tau0_model"  -> [b EXCEPT !.tau = "0.0"]
        [] setting = "tau_big"     -> [b EXCEPT !.tau = "4.0"]
        [] setting = "limit_model" -> [b EXCEPT !.limit = "T", !.tau = "2.0"]
        [] setting = "limit_call"  -> [b EXCEPT !.tau = "2.0"]
        [] setting = "limit_off_call" -> [b EXCEPT !.limit = "T", !.tau = "2.0"]
        [] setting = "kappa_big"   -> [b EXCEPT !.kappa = "0.01"]
        [] setting = "gamma_one"   -> [b EXCEPT !.gamma = "one"]
        [] setting = "gamma_big"   -> [b EXCEPT !.gamma = "big"]
        [] setting = "gamma_probe" -> [b EXCEPT !.gamma = "probe"]
        [] setting = "gamma_zero"  -> [b EXCEPT !.gamma = "zero"]
\* ... and per-call arguments
CallTau(setting)   == IF setting = "tau0_call" THEN PInt("0") ELSE PNone
CallLimit(setting) == IF setting = "limit_call" THEN PBool(TRUE) ELSE IF setting = "limit_off_call" THEN PBool(FALSE) ELSE PNone

Mid(ki, si) == (ki - 1) * NS + si
MCModels == [m \in 1..(5 * NS) |-> [ModelFor(KindSeq[((m - 1) \div NS) + 1], SettingSeq[((m - 1) % NS) + 1]) EXCEPT !.id = m]]

\* the cast: values chosen so that team differences land in every kernel regime and any misplaced player shows
CastOf(kind, base) == <<
  PRating(kind, base + 1, "uid-" \o ToString(base + 1), "str",  "ann", "25.0",  Sigma0),
  PRating(kind, base + 2, "uid-" \o ToString(base + 2), "none", "",    "30.5",  "1.25"),
  PRating(kind, base + 3, "uid-" \o ToString(base + 3), "str",  "cy",  "-12.0", "4.0"),
  PRating(kind, base + 4, "uid-" \o ToString(base + 4), "str",  "dee", "61.0",  "0.5"),
  PRating(kind, base + 5, "uid-" \o ToString(base + 5), "none", "",    "18.75", "0.015625") >>
MCCast == [r \in 1..(5 * CastSize) |-> CastOf(KindSeq[((r - 1) \div CastSize) + 1], ((r - 1) \div CastSize) * CastSize)[((r - 1) % CastSize) + 1]]

\* ordered sequences of n disjoint non-empty teams over a kind's cast (members in allocation order)
Assignments(n) == {f \in [1..CastSize -> 0..n] : \A i \in 1..n : \E r \in 1..CastSize : f[r] = i}
TeamOf(f, i) == SetToSortSeq({r \in 1..CastSize : f[r] = i}, <)
GamePV(f, n, base) == PList([i \in 1..n |-> PList([k \in 1..Len(TeamOf(f, i)) |-> RefLeaf(base + TeamOf(f, i)[k])])])

\* every weak order of n teams as a dense rank vector
DenseVectors(n) == {v \in [1..n -> 0..(n - 1)] : \A k \in 0..(n - 1) : (\E i \in 1..n : v[i] = k) => \A j \in 0..k : \E i \in 1..n : v[i] = j}
RanksPV(v, n) == PList([i \in 1..n |-> PInt(ToString(v[i]))])

\* outcome arguments over mixed values: ints, floats, negative, bools, as ranks and as scores, and omitted
EncValues == {PInt("-1"), PInt("0"), PFloat("0.0"), PInt("1"), PFloat("1.0"), PFloat("2.5"), PBool(TRUE), PBool(FALSE), PFloat("-0.0"),
              PFloat("0.5"), PInt("2")}
EncVectors(n) == [1..n -> EncValues]
EncCalls(n) == {[ranks |-> PList(v), scores |-> PNone] : v \in EncVectors(n)}
               \cup {[ranks |-> PNone, scores |-> PList(v)] : v \in EncVectors(n)}
               \cup {[ranks |-> PNone, scores |-> PNone], [ranks |-> PList(<<>>), scores |-> PNone]}

\* a pending call is a small index tuple (kind, setting, n, assignment, outcome); the call itself is built in the step,
\* so that enumerating the initial states stays cheap
OutcomeChoices(n) == IF OutcomeStyle = "dense" THEN DenseVectors(n) ELSE EncCalls(n)
GameChoices(n) == IF OutcomeStyle = "dense" THEN Assignments(n)
                  ELSE {g \in Assignments(n) : \A r \in 1..CastSize : g[r] = 0 \/ g[r] = r}
\* (TLC evaluates constant-level definitions eagerly at start-up: without the guard the unused 9^n outcome vectors of
\*  the "encodings" style were built, and unioned, in every "predict" run - 12 minutes for n = 4)
Pending == IF OutcomeStyle = "predict" THEN {} ELSE
           UNION {UNION {UNION {{<<ki, si, n, f, o>> : f \in GameChoices(n), o \in OutcomeChoices(n)}
             : n \in 2..MaxTeams} : si \in 1..NS} : ki \in {k \in 1..5 : KindSeq[k] \in KindSet}}

CallOf(p) ==
  LET ki == p[1]  si == p[2]  n == p[3]  f == p[4]  o == p[5]
  IN  [m |-> Mid(ki, si), teams |-> GamePV(f, n, (ki - 1) * CastSize),
       ranks |-> IF OutcomeStyle = "dense" THEN RanksPV(o, n) ELSE o.ranks,
       scores |-> IF OutcomeStyle = "dense" THEN PNone ELSE o.scores,
       tau |-> CallTau(SettingSeq[si]), limit |-> CallLimit(SettingSeq[si])]

\* predictions over the same games (OutcomeStyle = "predict"): the outcome component carries the operation
PredPending == IF OutcomeStyle # "predict" THEN {} ELSE
               UNION {UNION {{<<ki, 1, n, f, op>> : f \in Assignments(n), op \in {"win", "draw", "rank"}}
                 : n \in 2..MaxTeams} : ki \in {k \in 1..5 : KindSeq[k] \in KindSet}}
PredCallOf(p) == [m |-> Mid(p[1], p[2]), op |-> p[5], teams |-> GamePV(p[4], p[3], (p[1] - 1) * CastSize)]

MCInit == Init /\ pend \in (IF OutcomeStyle = "predict" THEN PredPending ELSE Pending)
MCNext == (IF OutcomeStyle = "predict" THEN Predict(PredCallOf(pend)) ELSE Rate(CallOf(pend))) /\ UNCHANGED pend
MCSpec == MCInit /\ [][MCNext]_<<vars, pend>>

NoCalls(ms, h) == {}
=============================================================================
