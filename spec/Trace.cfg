SPECIFICATION Spec
CONSTANTS
  FloatRankUsesIndex = FALSE
  TauZeroFallsBack = FALSE
  Want <- WantAll
INVARIANT AllConsumed
POSTCONDITION Accepted
CHECK_DEADLOCK FALSE
