----------------------------- MODULE OutcomeInt -----------------------------
(***************************************************************************)
(* The outcome pipeline of Outcome.tla over UNBOUNDED integer rank values, *)
(* for the symbolic checker Apalache: for every vector v in [1..N -> Int]  *)
(* the library's pipeline (stable sort by value, running index over the    *)
(* sorted values, inverse permutation) computes the competition rank       *)
(* (number of strictly smaller values), and the result depends on v only   *)
(* through its weak order.  N is fixed per run (2..6).                     *)
(***************************************************************************)
EXTENDS Integers, FiniteSets

CONSTANT
  \* @type: Int;
  N

CONSTANT
  \* @type: Bool;
  IndexForValue    \* negative control: the running-index pass sees positions instead of values (the repaired defect)

VARIABLES
  \* @type: Int -> Int;
  v,
  \* @type: Int -> Int;
  w

Idx == 1..N

CInit2 == N = 2 /\ IndexForValue = FALSE
CInit3 == N = 3 /\ IndexForValue = FALSE
CInit4 == N = 4 /\ IndexForValue = FALSE
CInit5 == N = 5 /\ IndexForValue = FALSE
CInit6 == N = 6 /\ IndexForValue = FALSE
CInitNeg == N = 3 /\ IndexForValue = TRUE

\* the rule
\* @type: (Int -> Int, Int) => Int;
CompRank(u, i) == Cardinality({q \in Idx : u[q] < u[i]})

\* stable sort position of input index i
\* @type: (Int -> Int, Int) => Int;
Pos(u, i) == 1 + Cardinality({q \in Idx : u[q] < u[i] \/ (u[q] = u[i] /\ q < i)})

\* value at sorted position k
\* @type: (Int -> Int, Int) => Int;
SortedVal(u, k) == IF IndexForValue THEN k ELSE LET i == CHOOSE j \in Idx : Pos(u, j) = k IN u[i]

\* the running index at sorted position k: k-1 if the value rose at k, else the running index at k-1;
\* closed form: (largest j <= k with j = 1 or a rise at j) - 1
\* @type: (Int -> Int, Int) => Int;
RunIdx(u, k) ==
  LET starts == {j \in Idx : j <= k /\ (j = 1 \/ SortedVal(u, j - 1) < SortedVal(u, j))}
      top == CHOOSE j \in starts : \A j2 \in starts : j2 <= j
  IN  top - 1

\* the pipeline's rank of input index i
\* @type: (Int -> Int, Int) => Int;
PipelineRank(u, i) == RunIdx(u, Pos(u, i))

SameOrder == \A i, j \in Idx : (v[i] < v[j]) <=> (w[i] < w[j])

Init == v \in [Idx -> Int] /\ w \in [Idx -> Int]
Next == UNCHANGED <<v, w>>

PosIsPermutation == \A k \in Idx : \E i \in Idx : Pos(v, i) = k
PipelineIsRule   == \A i \in Idx : PipelineRank(v, i) = CompRank(v, i)
OrderOnly        == SameOrder => \A i \in Idx : PipelineRank(v, i) = PipelineRank(w, i)
Inv == PosIsPermutation /\ PipelineIsRule /\ OrderOnly
=============================================================================
