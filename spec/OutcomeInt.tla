----------------------------- MODULE OutcomeInt -----------------------------
(***************************************************************************)
(* The outcome pipeline of Outcome.tla over UNBOUNDED integer rank values, *)
(* for the symbolic checker Apalache: for every vector v in [1..N -> Int]  *)
(* the library's pipeline (stable sort by value, running index over the    *)
(* sorted values, inverse permutation) computes the competition rank       *)
(* (number of strictly smaller values), and the result depends on v only   *)
(* through its weak order.  N is fixed per run (2..6).                     *)
(***************************************************************************)
EXTENDS Integers, FiniteSets

CONSTANT
  \* @type: Int;
  N

CONSTANT
  \* @type: Bool;
  IndexForValue    \* negative control: the running-index pass sees positions instead of values (the repaired defect)

VARIABLES
  \* @type: Int -> Int;
  v,
  \* @type: Int -> Int;
  w,
  \* @type: Int -> Int;
  p          \* a re-listing of the teams: position i of the re-listed game holds team p[i]

Idx == 1..N

CInit2 == N = 2 /\ IndexForValue = FALSE
CInit3 == N = 3 /\ IndexForValue = FALSE
CInit4 == N = 4 /\ IndexForValue = FALSE
CInit5 == N = 5 /\ IndexForValue = FALSE
CInit6 == N = 6 /\ IndexForValue = FALSE
CInitNeg == N = 3 /\ IndexForValue = TRUE

\* the rule
\* @type: (Int -> Int, Int) => Int;
CompRank(u, i) == Cardinality({q \in Idx : u[q] < u[i]})

\* stable sort position of input index i
\* @type: (Int -> Int, Int) => Int;
Pos(u, i) == 1 + Cardinality({q \in Idx : u[q] < u[i] \/ (u[q] = u[i] /\ q < i)})

\* value at sorted position k
\* @type: (Int -> Int, Int) => Int;
SortedVal(u, k) == IF IndexForValue THEN k ELSE LET i == CHOOSE j \in Idx : Pos(u, j) = k IN u[i]

\* the running index at sorted position k: k-1 if the value rose at k, else the running index at k-1;
\* closed form: (largest j <= k with j = 1 or a rise at j) - 1
\* @type: (Int -> Int, Int) => Int;
RunIdx(u, k) ==
  LET starts == {j \in Idx : j <= k /\ (j = 1 \/ SortedVal(u, j - 1) < SortedVal(u, j))}
      top == CHOOSE j \in starts : \A j2 \in starts : j2 <= j
  IN  top - 1

\* the pipeline's rank of input index i
\* @type: (Int -> Int, Int) => Int;
PipelineRank(u, i) == RunIdx(u, Pos(u, i))

SameOrder == \A i, j \in Idx : (v[i] < v[j]) <=> (w[i] < w[j])

Init == v \in [Idx -> Int] /\ w \in [Idx -> Int] /\ p \in [Idx -> Idx]
Next == UNCHANGED <<v, w, p>>

PosIsPermutation == \A k \in Idx : \E i \in Idx : Pos(v, i) = k
PipelineIsRule   == \A i \in Idx : PipelineRank(v, i) = CompRank(v, i)
OrderOnly        == SameOrder => \A i \in Idx : PipelineRank(v, i) = PipelineRank(w, i)
Inv == PosIsPermutation /\ PipelineIsRule /\ OrderOnly

\* ---- C02 at the design level: nobody is dropped, duplicated or moved.  The result for input position i is what the
\* update left at sorted position Pos(i); that is team i's own row exactly when Pos is injective.
PosInjective == \A i, j \in Idx : Pos(v, i) = Pos(v, j) => i = j
\* @type: (Int -> Int, Int) => Int;
TeamAt(u, k) == CHOOSE j \in Idx : Pos(u, j) = k          \* the team sorted to position k
UnwindRestores == \A i \in Idx : TeamAt(v, Pos(v, i)) = i

\* ---- the ladder of partial pairing (C07's "symmetric neighbour relation", C05's "weakly so under partial pairing")
\* @type: (Int -> Int, Int, Int) => Bool;
Neighbour(u, i, q) == Pos(u, q) = Pos(u, i) + 1 \/ Pos(u, q) + 1 = Pos(u, i)
LadderSymmetric == \A i, q \in Idx : Neighbour(v, i, q) <=> Neighbour(v, q, i)
\* neighbours are adjacent in the outcome: no third team lies strictly between them
LadderAdjacent  == \A i, q \in Idx : Neighbour(v, i, q) => ~\E r \in Idx : (v[i] < v[r] /\ v[r] < v[q]) \/ (v[q] < v[r] /\ v[r] < v[i])
\* every team but the two ends has two neighbours, the ends one (N >= 2)
LadderDegree    == \A i \in Idx : Cardinality({q \in Idx : Neighbour(v, i, q)}) = (IF Pos(v, i) = 1 \/ Pos(v, i) = N THEN 1 ELSE 2)

\* ---- C04 at the design level: re-listing the teams (values alongside) moves nothing in the sorted order, provided mutually
\* tied teams keep their relative order; the competition rank needs no proviso
IsPerm       == \A k \in Idx : \E i \in Idx : p[i] = k
\* @type: Int -> Int;
Relisted     == [i \in Idx |-> v[p[i]]]
KeepsTieOrder == \A i, j \in Idx : (i < j /\ v[p[i]] = v[p[j]]) => p[i] < p[j]
SortEquivariant == (IsPerm /\ KeepsTieOrder) => \A i \in Idx : Pos(Relisted, i) = Pos(v, p[i])
RankEquivariant == IsPerm => \A i \in Idx : CompRank(Relisted, i) = CompRank(v, p[i])
\* and without the proviso only tied teams can change places
TiesOnlyMove == IsPerm => \A i \in Idx : v[TeamAt(v, Pos(Relisted, i))] = v[p[i]]

\* negative control (must be refuted): without the proviso the sorted order is NOT preserved - which is why C04 states it
SortEquivariantUnconditional == IsPerm => \A i \in Idx : Pos(Relisted, i) = Pos(v, p[i])

\* ---- C11 at the design level: the ranks predict_rank attaches to a vector of probabilities.  Only the order of the values
\* matters, so the unbounded integers stand for any totally ordered values.  The library ranks ascending with competition
\* ranking (_rank_data) and reverses against the rank of a maximal element.
\* @type: (Int -> Int, Int) => Int;
RankDataI(u, i) == 1 + Cardinality({q \in Idx : u[q] < u[i]})
\* @type: (Int -> Int) => Int;
MaxRankI(u) == 1 + Cardinality({q \in Idx : \E r \in Idx : u[q] < u[r]})        \* rank_data of a maximal element
\* @type: (Int -> Int, Int) => Int;
PredRank(u, i) == (MaxRankI(u) - RankDataI(u, i)) + 1
RankInRange   == \A i \in Idx : PredRank(v, i) >= 1 /\ PredRank(v, i) <= N
RankOrder     == \A i, j \in Idx : (v[j] < v[i] => PredRank(v, i) < PredRank(v, j)) /\ (v[i] = v[j] => PredRank(v, i) = PredRank(v, j))
RankTop       == \E i \in Idx : PredRank(v, i) = 1
RankOrderOnly == SameOrder => \A i \in Idx : PredRank(v, i) = PredRank(w, i)
Inv4 == RankInRange /\ RankOrder /\ RankTop /\ RankOrderOnly
\* negative control (must be refuted): ranking the complements 1 - p ascending is NOT the same rule once values are close
\* enough for the subtraction to collapse them; in exact arithmetic it is the same, so the control uses a coarsening
\* @type: (Int -> Int, Int) => Int;
Coarse(u, i) == u[i] \div 2
ComplementRankCollapses == \A i, j \in Idx : (v[j] < v[i]) => (Coarse(v, j) < Coarse(v, i))

Inv2 == PosInjective /\ UnwindRestores /\ LadderSymmetric /\ LadderAdjacent /\ LadderDegree
Inv3 == SortEquivariant /\ RankEquivariant /\ TiesOnlyMove
=============================================================================
