-------------------------------- MODULE Trace --------------------------------
(***************************************************************************)
(* Trace specification: executions recorded from the real library          *)
(* (one JSON object per public call, file named by the environment         *)
(* variable TRACE_FILE) are validated against the operators the state      *)
(* machine OpenSkill.tla is defined from (Sem.tla) and judged by the       *)
(* property formulas of Props.tla / Rel.tla.                               *)
(*                                                                         *)
(* Verdicts are total: the action always advances, follows the *observed*  *)
(* post-state (so rounding does not accumulate along a league), and prints *)
(* one line <<"EV", line, tid, failing clauses, coverage classes>> per     *)
(* event.  The search is linear (every event carries all its arguments and *)
(* results); acceptance is "every line consumed" (POSTCONDITION).          *)
(***************************************************************************)
EXTENDS Rel, Stages, Extras, Json, IOUtils

CONSTANT Want          \* property ids whose clauses are evaluated, e.g. {"C01", "C02"}

Trace == ndJsonDeserialize(IOEnv.TRACE_FILE)

VARIABLES l,           \* next line of the trace
          heap,        \* ref -> rating leaf as last observed (the abstract heap of OpenSkill.tla)
          grp          \* the group of sibling calls being collected (relational properties)

vars == <<l, heap, grp>>

EmptyHeap == [r \in {} |-> PNone]
EmptyGrp  == [id |-> "", ev |-> <<>>]

W(id) == id \in Want
WantAll == {"C01", "C02", "C03", "C04", "C05", "C06", "C07", "C08", "C09", "C10",
            "C11", "C12", "C13", "C14", "C15", "C16", "C17", "C18", "C19", "C20"}

---------------------------------------------------------------------------
\* binding to the heap: what an event saw must be what earlier events left
BindFails(val) == {"bind.heap[" \o ToString(x.ref) \o "]" : x \in {y \in Leaves(val) : y.ref \in DOMAIN heap /\ heap[y.ref] # y}}
\* one object, one projection
AliasFails(val) == LET L == Leaves(val) IN IF \E x, y \in L : x.ref = y.ref /\ x # y THEN {"bind.alias"} ELSE {}
HeapAfter(vals) == LET L == UNION {Leaves(v) : v \in vals} IN LeafMap(L) @@ heap

---------------------------------------------------------------------------
RateClasses(e, X, vals, lim) ==
  LET n == N(e)
      ts == TieSize(vals)
  IN  {"kind=" \o e.model0.kind, "n=" \o ToString(n), "gamma=" \o e.model0.gamma}
      \cup (IF \E i \in 1..n : ts[i] > 1 THEN {"ties"} ELSE {})
      \cup (IF \E i \in 1..n : ts[i] > 2 THEN {"multiway_tie"} ELSE {})
      \cup (IF \E i \in 1..n : Len(e.teams.items[i].items) > 1 THEN {"teams"} ELSE {})
      \cup (IF \E i \in 1..n : \E j, k \in MemIdx(e, i) : Pre(e, i, j).sigma # Pre(e, i, k).sigma THEN {"hetero"} ELSE {})
      \cup (IF Given(e.ranks) THEN {"enc=ranks"} ELSE IF Given(e.scores) THEN {"enc=scores"} ELSE {"enc=none"})
      \cup (IF ~IsNone(e.tau) THEN {"tau_call"} ELSE {})
      \cup (IF ~IsNone(e.limit) THEN {"limit_call"} ELSE {})
      \cup (IF lim THEN {"limit"} ELSE {})
      \cup (IF X = <<>> THEN {} ELSE
              (IF \E s \in AllSlots(e) : X[s[1]][s[2]].floor THEN {"floor"} ELSE {})
              \cup (IF \E s \in AllSlots(e) : X[s[1]][s[2]].clamp THEN {"clamp"} ELSE {})
              \cup (IF \E s \in AllSlots(e) : X[s[1]][s[2]].guard THEN {"guardband"} ELSE {}))

\* m is the model as its owner configured it (construction, plus the caller's own assignments): when the library itself
\* has changed an attribute in an earlier call, the calls that follow are still judged by the configuration the owner chose
RateVerdict(e) ==
  LET m    == e.model0
      c    == Call(e)
      wf   == WFRateCall(m.kind, c)
      comp == wf /\ Computable(m, c)
      dom  == comp /\ InDomainRate(m, c)
      shp  == wf /\ HasShape(e)
      needX == comp /\ shp /\ ObsFinite(e) /\ (Want \cap {"C01", "C02", "C05", "C06", "C07", "C04", "C16", "C03", "C15"} # {})
      X    == IF needX THEN RateX(m, c) ELSE <<>>
      vals == IF wf THEN OutcomeVals(c) ELSE <<>>
      tau  == IF comp THEN EffTau(m, c) ELSE "0"
      lim  == IF comp THEN EffLimit(m, c) ELSE FALSE
      fails ==
        BindFails(e.teams) \cup AliasFails(e.teams)
        \cup (IF W("C13") THEN C13Rate(e) ELSE {})
        \cup (IF W("C14") THEN C14ModelRO(e) \cup C14ArgsUntouched(e) ELSE {})
        \cup (IF W("C02") /\ wf /\ DistinctObjects(e.teams) /\ Ok(e) THEN C02(e, X, "float") ELSE {})
        \cup (IF W("C01") /\ comp /\ Ok(e) THEN (IF needX THEN C01(e, X, "float") ELSE {"C01.no_result"}) ELSE {})
        \cup (IF W("C06") /\ comp /\ dom /\ Ok(e) THEN C06(e, tau, lim, "float") ELSE {})
        \cup (IF W("C08") /\ dom THEN C08Rate(e) ELSE {})
        \cup (IF W("C05") /\ needX /\ dom THEN C05Single(e, X, vals, "float") ELSE {})
        \cup (IF W("C07") /\ needX /\ dom THEN C07(e, m, X, vals, tau, "float") ELSE {})
        \* the inside of the call (Stages.tla): no listed property, only `./check stages` asks for it
        \cup (IF W("S") /\ comp /\ Ok(e) /\ "stages" \in DOMAIN e THEN StageFails(m, c, e.stages) ELSE {})
      cls == (IF wf THEN (IF comp THEN RateClasses(e, X, vals, lim) ELSE {"uncomputable"}) ELSE {"malformed"})
             \cup (IF dom THEN {"in_domain"} ELSE {}) \cup (IF Ok(e) THEN {"ok"} ELSE {"raise:" \o e.out.exc})
             \cup (IF W("S") /\ "stages" \in DOMAIN e THEN StageClasses(e.stages) ELSE {})
  IN  [fails |-> fails, cls |-> cls, X |-> X]

PredictVerdict(e) ==
  LET m    == e.model0
      wf   == WFTeams(m.kind, e.teams)
      comp == wf /\ PredictComputable(m, e.teams)
      dom  == comp /\ InDomainPredict(m, e.teams)
      fails ==
        BindFails(e.teams) \cup AliasFails(e.teams)
        \cup (IF W("C13") THEN C13Predict(e) ELSE {})
        \cup (IF W("C14") THEN C14ModelRO(e) \cup C14PredictPure(e) ELSE {})
        \cup (IF W("C08") /\ dom THEN C08Predict(e) ELSE {})
        \cup (IF e.op = "win" /\ comp /\ Ok(e) THEN
                 (IF W("C09") /\ dom THEN C09Single(e) ELSE {})
                 \cup (IF W("C12") /\ dom THEN C12Win(e, WinX(m, e.teams)) ELSE {})
              ELSE {})
        \cup (IF e.op = "draw" /\ comp /\ Ok(e) THEN
                 (IF W("C10") /\ dom THEN C10Single(e) ELSE {})
                 \cup (IF W("C12") /\ dom THEN C12Draw(e, DrawX(m, e.teams)) ELSE {})
              ELSE {})
        \cup (IF e.op = "rank" /\ comp /\ Ok(e) THEN
                 (IF W("C11") /\ dom THEN C11Single(e) ELSE {})
                 \cup (IF W("C12") /\ dom THEN C12Rank(e, RankX(m, e.teams)) ELSE {})
              ELSE {})
        \cup (IF W("S") /\ comp /\ dom /\ Ok(e) /\ "stages" \in DOMAIN e THEN PredictStageFails(m, e.teams, e.op, e.stages) ELSE {})
      cls == {"op=" \o e.op, "kind=" \o m.kind}
             \cup (IF W("S") /\ "stages" \in DOMAIN e THEN StageClasses(e.stages) ELSE {})
             \cup (IF wf THEN {"n=" \o ToString(N(e))} ELSE {"malformed"})
             \cup (IF dom THEN {"in_domain"} ELSE {}) \cup (IF Ok(e) THEN {"ok"} ELSE {"raise:" \o e.out.exc})
  IN  [fails |-> fails, cls |-> cls, X |-> <<>>]

Verdict(e) ==
  CASE e.op = "rate" -> RateVerdict(e)
    [] e.op \in {"win", "draw", "rank"} -> PredictVerdict(e)
    [] e.op = "kernel" -> [fails |-> IF W("C17") THEN C17(e) ELSE {}, cls |-> C17Classes(e), X |-> <<>>]
    \* the rest of the surface (Extras.tla): no listed property, only `./check extras` asks for it
    [] e.op = "extra" -> [fails |-> IF W("X") THEN ExtraFails(e) ELSE {}, cls |-> ExtraClasses(e), X |-> <<>>]
    [] OTHER -> ObjVerdict(e, heap, Want)

\* values whose rating leaves enter the heap after the event
Touched(e) ==
  CASE e.op = "rate" -> {e.after} \cup (IF Ok(e) THEN {e.out.value} ELSE {})
    [] e.op \in {"win", "draw", "rank"} -> {e.after}
    [] e.op \in {"kernel", "extra"} -> {}
    [] OTHER -> ObjTouched(e)

---------------------------------------------------------------------------
Init == l = 1 /\ heap = EmptyHeap /\ grp = EmptyGrp

Step ==
  /\ l <= Len(Trace)
  /\ LET e == Trace[l]
     IN  IF e.op = "reset"
           THEN /\ heap' = EmptyHeap /\ grp' = EmptyGrp /\ l' = l + 1
           ELSE LET v  == Verdict(e)
                    g  == GroupStep(grp, e, v.X, Want)          \* [grp, fails, cls]
                IN  /\ PrintT(<<"EV", l, e.tid, v.fails \cup g.fails, v.cls \cup g.cls>>)
                    /\ heap' = HeapAfter(Touched(e))
                    /\ grp' = g.grp
                    /\ l' = l + 1

Done == l > Len(Trace) /\ UNCHANGED vars
Next == Step \/ Done
Spec == Init /\ [][Next]_vars

\* acceptance: every line consumed
AllConsumed == TLCSet(1, l) \* register 1 follows the position (single worker)
Accepted == TLCGet(1) = Len(Trace) + 1
=============================================================================
