INIT Init
NEXT Next
