-------------------------------- MODULE PyVal --------------------------------
(***************************************************************************)
(* Abstract syntax of the Python values a caller can pass to the library,  *)
(* and what "well-formed" means for each operation (property C13), read    *)
(* from the property's sentence and independent of how a value was made.   *)
(*                                                                         *)
(* TLC cannot compare values of different types, so every Python value is  *)
(* a record with the same nine fields:                                     *)
(*   t     "none" "bool" "int" "float" "str" "list" "tuple" "dict" "set"   *)
(*         "obj" "rating"                                                  *)
(*   v     numeral ("1"/"0" for bools; "nan" "inf" "-inf" tokens), text of *)
(*         a str, class kind of a rating ("PL" "BTF" "BTP" "TMF" "TMP")    *)
(*   items elements of a list / tuple                                      *)
(*   ref uid nt nm mu sigma   rating objects: allocation number, id, name  *)
(*         (nt = "none" | "str", nm = text), values as numerals            *)
(***************************************************************************)
EXTENDS HPReal, Sequences, FiniteSets

PV(t, v) == [t |-> t, v |-> v, items |-> <<>>, ref |-> 0, uid |-> "", nt |-> "", nm |-> "", mu |-> "", sigma |-> ""]
PNone    == PV("none", "")
PInt(s)  == PV("int", s)
PFloat(s) == PV("float", s)
PBool(b) == PV("bool", IF b THEN "1" ELSE "0")
PStr(s)  == PV("str", s)
PList(xs) == [PV("list", "") EXCEPT !.items = xs]
PTuple(xs) == [PV("tuple", "") EXCEPT !.items = xs]
PRating(kind, ref, uid, nt, nm, mu, sigma) ==
  [t |-> "rating", v |-> kind, items |-> <<>>, ref |-> ref, uid |-> uid, nt |-> nt, nm |-> nm, mu |-> mu, sigma |-> sigma]

IsNone(p)   == p.t = "none"
IsList(p)   == p.t = "list"
IsNum(p)    == p.t \in {"int", "float", "bool"}          \* Python: isinstance(x, (int, float))
IsFinite(p) == IsNum(p) /\ RIsReal(p.v)                  \* not nan / inf
IsRating(p) == p.t = "rating"
IsRatingOf(p, kind) == p.t = "rating" /\ p.v = kind

\* a selector (ranks / scores) is "given" when it is neither None nor an empty list
Given(p) == ~(IsNone(p) \/ (IsList(p) /\ p.items = <<>>))

\* teams: a list of at least two non-empty lists of that model's own rating objects
WFTeams(kind, teams) ==
  /\ IsList(teams) /\ Len(teams.items) >= 2
  /\ \A i \in 1..Len(teams.items) :
        LET tm == teams.items[i]
        IN  /\ IsList(tm) /\ Len(tm.items) >= 1
            /\ \A j \in 1..Len(tm.items) : IsRatingOf(tm.items[j], kind)

\* a given selector must be a list of numbers, one per team
WFSelector(sel, n) ==
  Given(sel) => /\ IsList(sel) /\ Len(sel.items) = n
                /\ \A i \in 1..Len(sel.items) : IsNum(sel.items[i])

WFRateCall(kind, c) ==
  /\ WFTeams(kind, c.teams)
  /\ WFSelector(c.ranks, Len(c.teams.items))
  /\ WFSelector(c.scores, Len(c.teams.items))
  /\ ~(Given(c.ranks) /\ Given(c.scores))

\* the exception class the library raises today for a malformed call (used only to *generate*
\* expected outcomes; the properties accept either TypeError or ValueError)
TeamsExc(kind, teams) ==
  IF ~IsList(teams) THEN "TypeError"
  ELSE IF Len(teams.items) < 2 THEN "ValueError"
  ELSE LET bad == {i \in 1..Len(teams.items) :
                     LET tm == teams.items[i]
                     IN ~(IsList(tm) /\ Len(tm.items) >= 1 /\ \A j \in 1..Len(tm.items) : IsRatingOf(tm.items[j], kind))}
           i == CHOOSE k \in bad : \A k2 \in bad : k <= k2
           tm == teams.items[i]
       IN  IF ~IsList(tm) THEN "TypeError" ELSE IF Len(tm.items) < 1 THEN "ValueError" ELSE "TypeError"

SelectorExc(sel, n) == IF ~IsList(sel) THEN "TypeError" ELSE IF Len(sel.items) # n THEN "ValueError" ELSE "TypeError"

RateExc(kind, c) ==
  IF ~WFTeams(kind, c.teams) THEN TeamsExc(kind, c.teams)
  ELSE LET n == Len(c.teams.items)
       IN  IF Given(c.ranks) /\ ~WFSelector(c.ranks, n) THEN SelectorExc(c.ranks, n)
           ELSE IF Given(c.ranks) /\ Given(c.scores) THEN "ValueError"
           ELSE SelectorExc(c.scores, n)

\* ---- structure helpers
Shape(teams) == [i \in 1..Len(teams.items) |-> Len(teams.items[i].items)]
At(teams, i, j) == teams.items[i].items[j]
Slots(teams) == {<<i, j>> \in (1..Len(teams.items)) \X (1..16) : j <= Len(teams.items[i].items)}

\* all rating leaves anywhere inside a value
RECURSIVE Leaves(_)
Leaves(p) == IF IsRating(p) THEN {p}
             ELSE IF p.t \in {"list", "tuple"} THEN UNION {Leaves(p.items[k]) : k \in 1..Len(p.items)}
             ELSE {}

\* leaves as a map from allocation number
LeafMap(L) == [r \in {x.ref : x \in L} |-> CHOOSE x \in L : x.ref = r]

\* numeric prior values of well-formed teams: <<team, ..>>, team = <<[mu, sigma], ..>>
PMatV(f) == f \o <<>>
TeamsVals(teams) == PMatV([i \in 1..Len(teams.items) |->
                       PMatV([j \in 1..Len(teams.items[i].items) |->
                          [mu |-> At(teams, i, j).mu, sigma |-> At(teams, i, j).sigma]])])

AllRealLeaves(teams) == \A i \in 1..Len(teams.items) : \A j \in 1..Len(teams.items[i].items) :
                           RIsReal(At(teams, i, j).mu) /\ RIsReal(At(teams, i, j).sigma)

\* every slot of well-formed teams holds a different object (the properties speak of players; the same object
\* passed in two slots is outside their domain)
RECURSIVE CountSlots(_)
CountSlots(ts) == IF ts = <<>> THEN 0 ELSE Len(Head(ts).items) + CountSlots(Tail(ts))
DistinctObjects(teams) == Cardinality({x.ref : x \in Leaves(teams)}) = CountSlots(teams.items)

\* same player data (everything but the allocation number)
SameData(a, b) == a.t = b.t /\ a.v = b.v /\ a.uid = b.uid /\ a.nt = b.nt /\ a.nm = b.nm /\ a.mu = b.mu /\ a.sigma = b.sigma
SameValues(a, b) == a.mu = b.mu /\ a.sigma = b.sigma
=============================================================================
