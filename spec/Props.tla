-------------------------------- MODULE Props --------------------------------
(***************************************************************************)
(* The listed properties as formulas over one observation                  *)
(*   e = [op, model, model_after, teams, ranks, scores, tau, limit,        *)
(*        out = [kind, exc, value], after, group, role]                    *)
(* Each operator returns the SET of failing clause names (empty = holds),  *)
(* so that a verdict is total and names what failed.  The same formulas    *)
(* judge the specification's own transitions (OpenSkill.tla, with the      *)
(* tolerance mode "exact") and executions recorded from the library        *)
(* (Trace.tla, mode "float").                                              *)
(***************************************************************************)
EXTENDS Sem

Slot(name, i, j) == name \o "[" \o ToString(i) \o "][" \o ToString(j) \o "]"

Call(e) == [teams |-> e.teams, ranks |-> e.ranks, scores |-> e.scores, tau |-> e.tau, limit |-> e.limit]
Ok(e) == e.out.kind = "ok"
N(e) == Len(e.teams.items)
TeamIdx(e) == 1..Len(e.teams.items)
MemIdx(e, i) == 1..Len(e.teams.items[i].items)
AllSlots(e) == {<<i, j>> \in TeamIdx(e) \X (1..16) : j <= Len(e.teams.items[i].items)}

\* observed posterior leaf at a slot, when the result has the input's shape
HasShape(e) == /\ Ok(e) /\ IsList(e.out.value) /\ Len(e.out.value.items) = N(e)
               /\ \A i \in TeamIdx(e) : IsList(e.out.value.items[i])
                                        /\ Len(e.out.value.items[i].items) = Len(e.teams.items[i].items)
               /\ \A i \in TeamIdx(e) : \A j \in MemIdx(e, i) : IsRating(e.out.value.items[i].items[j])
Obs(e, i, j) == e.out.value.items[i].items[j]
Pre(e, i, j) == e.teams.items[i].items[j]
Post(e, i, j) == e.after.items[i].items[j]
ObsFinite(e) == \A s \in AllSlots(e) : RIsReal(Obs(e, s[1], s[2]).mu) /\ RIsReal(Obs(e, s[1], s[2]).sigma)

\* tolerance mode: "float" = an IEEE execution judged with the budgets of Update.tla;
\* "exact" = the specification's own result, where the budgets shrink to 1e-30 relative
TolMu(mode, x)    == IF mode = "float" THEN x.tmu ELSE "1E-30" ** ("1" ++ RAbs(x.mu))
TolSigma(mode, x) == IF mode = "float" THEN x.tsigma ELSE "1E-30" ** ("1" ++ RAbs(x.sigma))
UlpSlack(mode, v) == IF mode = "float" THEN "4" ** RUlp(v) ELSE "1E-30" ** ("1" ++ RAbs(v))

---------------------------------------------------------------------------
\* C13 - malformed calls are rejected with TypeError/ValueError before any side effect;
\*       every well-formed call is accepted
C13Rate(e) ==
  LET wf == WFRateCall(e.model.kind, Call(e))
      \* acceptance is demanded on the numeric domain of the properties (a prior sigma of 0 with tau = 0 is not in it)
      dom == wf /\ Computable(e.model, Call(e)) /\ InDomainRate(e.model, Call(e))
  IN  IF wf THEN (IF Ok(e) \/ ~dom THEN {} ELSE {"C13.wellformed_rejected:" \o e.out.exc})
      ELSE (IF Ok(e) THEN {"C13.malformed_accepted"} ELSE {})
           \cup (IF ~Ok(e) /\ e.out.exc \notin {"TypeError", "ValueError"} THEN {"C13.exception_class:" \o e.out.exc} ELSE {})
           \cup (IF e.after # e.teams THEN {"C13.rating_modified"} ELSE {})
           \cup (IF e.model_after # e.model THEN {"C13.model_modified"} ELSE {})

C13Predict(e) ==
  LET wf == WFTeams(e.model.kind, e.teams)
      dom == wf /\ PredictComputable(e.model, e.teams) /\ InDomainPredict(e.model, e.teams)
  IN  IF wf THEN (IF Ok(e) \/ ~dom THEN {} ELSE {"C13.wellformed_rejected:" \o e.out.exc})
      ELSE (IF Ok(e) THEN {"C13.malformed_accepted"} ELSE {})
           \cup (IF ~Ok(e) /\ e.out.exc \notin {"TypeError", "ValueError"} THEN {"C13.exception_class:" \o e.out.exc} ELSE {})
           \cup (IF e.after # e.teams THEN {"C13.rating_modified"} ELSE {})
           \cup (IF e.model_after # e.model THEN {"C13.model_modified"} ELSE {})

\* C14 (single-event part) - no rate or predict call changes any attribute of the model
C14ModelRO(e) == (IF e.model_after # e.model THEN {"C14.model_modified"} ELSE {})
                 \cup (IF e.model # e.model0 THEN {"C14.model_differs_from_construction"} ELSE {})
\* ... nor the caller's ranks / scores lists (a list sorted in place makes the NEXT call that reuses it depend on this one)
C14ArgsUntouched(e) == (IF e.ranks_after # e.ranks THEN {"C14.ranks_argument_modified"} ELSE {})
                       \cup (IF e.scores_after # e.scores THEN {"C14.scores_argument_modified"} ELSE {})
\* ... and predictions do not touch the ratings
C14PredictPure(e) == IF e.after # e.teams THEN {"C14.predict_modified_rating"} ELSE {}

---------------------------------------------------------------------------
\* C02 - positional correspondence, identity of players, no mixture
C02(e, X, mode) ==
  IF ~HasShape(e) THEN {"C02.shape"}
  ELSE
    LET S == AllSlots(e)
        idBad  == {s \in S : LET o == Obs(e, s[1], s[2])  p == Pre(e, s[1], s[2])
                             IN ~(o.v = p.v /\ o.uid = p.uid /\ o.nt = p.nt /\ o.nm = p.nm)}
        keepBad == {s \in S : LET a == Post(e, s[1], s[2])  p == Pre(e, s[1], s[2])
                             IN ~(a.ref = p.ref /\ a.v = p.v /\ a.uid = p.uid /\ a.nt = p.nt /\ a.nm = p.nm)}
        untouched == \A s \in S : SameValues(Post(e, s[1], s[2]), Pre(e, s[1], s[2]))
        updated   == \A s \in S : SameValues(Post(e, s[1], s[2]), Obs(e, s[1], s[2]))
        Match(o, x) == RIsReal(o.mu) /\ RIsReal(o.sigma) /\ RWithin(o.mu, x.mu, TolMu(mode, x)) /\ RWithin(o.sigma, x.sigma, TolSigma(mode, x))
        \* a posterior that is not this slot's but is another slot's: a moved player
        moved == IF X = <<>> THEN {}
                 ELSE {s \in S : /\ ~Match(Obs(e, s[1], s[2]), X[s[1]][s[2]])
                                 /\ \E r \in S : r # s /\ Match(Obs(e, s[1], s[2]), X[r[1]][r[2]])}
        \* a sigma that is not this slot's posterior but is exactly another slot's prior: the clamp paired with the wrong original
        wrongClamp == IF X = <<>> THEN {}
                      ELSE {s \in S : /\ ~Match(Obs(e, s[1], s[2]), X[s[1]][s[2]])
                                      /\ Obs(e, s[1], s[2]).sigma # Pre(e, s[1], s[2]).sigma
                                      /\ \E r \in S : r # s /\ Obs(e, s[1], s[2]).sigma = Pre(e, r[1], r[2]).sigma}
    IN  {Slot("C02.identity", s[1], s[2]) : s \in idBad}
        \cup {Slot("C02.sigma_clamped_to_another_slots_prior", s[1], s[2]) : s \in wrongClamp}
        \cup {Slot("C02.input_identity_changed", s[1], s[2]) : s \in keepBad}
        \cup (IF untouched \/ updated THEN {} ELSE {"C02.mixture"})
        \cup {Slot("C02.moved", s[1], s[2]) : s \in moved}

\* C01 - the posterior is the published rule's, within the double-precision budget
C01(e, X, mode) ==
  IF ~HasShape(e) \/ ~ObsFinite(e) THEN {"C01.no_result"}
  ELSE
    LET S == AllSlots(e)
        muBad == {s \in S : LET x == X[s[1]][s[2]] IN ~x.guard /\ ~RWithin(Obs(e, s[1], s[2]).mu, x.mu, TolMu(mode, x))}
        sgBad == {s \in S : LET x == X[s[1]][s[2]] IN ~x.guard /\ ~RWithin(Obs(e, s[1], s[2]).sigma, x.sigma, TolSigma(mode, x))}
    IN  {Slot("C01.mu", s[1], s[2]) : s \in muBad} \cup {Slot("C01.sigma", s[1], s[2]) : s \in sgBad}

\* C06 - sigma finite, positive, at most sqrt(prior^2 + tau^2), and at most the prior under limit_sigma
C06(e, tau, lim, mode) ==
  IF ~HasShape(e) THEN {"C06.no_result"}
  ELSE
    LET S == AllSlots(e)
        bad(s) == LET o == Obs(e, s[1], s[2])
                      p == Pre(e, s[1], s[2])
                      cap == RSqrt(RSq(p.sigma) ++ RSq(tau))
                  IN  IF ~RIsReal(o.sigma) THEN {"C06.not_finite"}
                      ELSE (IF ~RPos(o.sigma) /\ (RPos(p.sigma) \/ ~lim) THEN {"C06.not_positive"} ELSE {})
                           \cup (IF RLt(cap ++ UlpSlack(mode, cap), o.sigma) THEN {"C06.exceeds_tau_growth"} ELSE {})
                           \cup (IF lim /\ RLt(p.sigma, o.sigma) THEN {"C06.limit_sigma_exceeded"} ELSE {})
    IN  UNION {{Slot(f, s[1], s[2]) : f \in bad(s)} : s \in S}

\* C08 - totality on the numeric domain
C08Rate(e) == IF ~Ok(e) THEN {"C08.raised:" \o e.out.exc}
              ELSE IF ~HasShape(e) \/ ~ObsFinite(e) THEN {"C08.not_finite"} ELSE {}

---------------------------------------------------------------------------
\* C05 (single game) - sole winner never loses mu, sole loser never gains; a team moves together,
\*       each member in proportion to their own inflated variance
C05Single(e, X, vals, mode) ==
  IF ~HasShape(e) \/ ~ObsFinite(e) THEN {}
  ELSE
    LET cr == CompRank(vals)
        ts == TieSize(vals)
        n  == Len(vals)
        nWorse(i) == Cardinality({q \in 1..n : ValLt(vals[i], vals[q])})
        d(i, j) == Obs(e, i, j).mu -- Pre(e, i, j).mu
        sl(i, j) == UlpSlack(mode, Obs(e, i, j).mu)
        first == {i \in 1..n : cr[i] = 0 /\ ts[i] = 1}
        last  == {i \in 1..n : nWorse(i) = 0 /\ ts[i] = 1}
        a1 == {<<i, j>> \in AllSlots(e) : i \in first /\ RLt(d(i, j), RNeg(sl(i, j)))}
        a2 == {<<i, j>> \in AllSlots(e) : i \in last /\ RLt(sl(i, j), d(i, j))}
        \* opposite strict signs inside a team
        b1 == {i \in 1..n : \E j, k \in MemIdx(e, i) : RLt(sl(i, j), d(i, j)) /\ RLt(d(i, k), RNeg(sl(i, k)))}
        \* proportionality: d_j * s2_k = d_k * s2_j within the budget of the two posteriors
        b2 == {i \in 1..n : \E j, k \in MemIdx(e, i) : j < k /\
                 LET xj == X[i][j]  xk == X[i][k]
                 IN  ~xj.guard /\
                     ~RWithin(d(i, j) ** xk.s2, d(i, k) ** xj.s2,
                              "2" ** ((TolMu(mode, xj) ** xk.s2) ++ (TolMu(mode, xk) ** xj.s2)))}
        \* no ties: value-identical teams end with mu ordered by finishing place (weakly), member by member
        T == TeamsVals(e.teams)
        noTies == \A p, r \in 1..n : p # r => ~ValEq(vals[p], vals[r])
        c1 == IF ~noTies THEN {}
              ELSE {pr \in (1..n) \X (1..n) : /\ pr[1] # pr[2] /\ T[pr[1]] = T[pr[2]] /\ ValLt(vals[pr[1]], vals[pr[2]])
                                               /\ \E l \in MemIdx(e, pr[1]) :
                                                     LET x == X[pr[1]][l]  y == X[pr[2]][l]
                                                     IN  ~x.guard /\ ~y.guard /\
                                                         RLt(Obs(e, pr[1], l).mu, Obs(e, pr[2], l).mu -- (TolMu(mode, x) ++ TolMu(mode, y)))}
        \* under partial pairing a team is compared with its ladder neighbours only; when some team of the game is NOT
        \* value-identical to the pair the clause is known not to hold (known finding KF-C05-1) and gets its own name
        allSame == \A p \in 1..n : T[p] = T[1]
        c1name == IF IsPart(e.model.kind) /\ ~allSame THEN "C05.identical_teams_not_ordered_by_place:partial_pairing_with_a_different_team"
                  ELSE "C05.identical_teams_not_ordered_by_place"
    IN  {c1name \o "[" \o ToString(pr[1]) \o "," \o ToString(pr[2]) \o "]" : pr \in c1} \cup
        {Slot("C05.winner_lost_mu", s[1], s[2]) : s \in a1}
        \cup {Slot("C05.loser_gained_mu", s[1], s[2]) : s \in a2}
        \cup {"C05.team_split_direction[" \o ToString(i) \o "]" : i \in b1}
        \cup {"C05.not_proportional[" \o ToString(i) \o "]" : i \in b2}

\* C07 - precision-weighted zero sum
C07(e, m, X, vals, tau, mode) ==
  IF ~HasShape(e) \/ ~ObsFinite(e) THEN {}
  ELSE
    LET n == Len(vals)
        kind == m.kind
        s2(i) == RSumSeq(PMatV([j \in MemIdx(e, i) |-> X[i][j].s2]))
        D(i)  == RSumSeq(PMatV([j \in MemIdx(e, i) |-> Obs(e, i, j).mu -- Pre(e, i, j).mu]))
        \* what floating point owes: the step itself to 1e-9 of ITS size (plus the kernels' stated noise), and the rounding of
        \* adding it to the rating (4 ulp of the rating).  Not 1e-9 of the rating: for a settled player (sigma 1e-4 beta) that
        \* is a thousand times the step, and the identity would say nothing (a step dropped as "too small to matter" - seed
        \* k07 - passed).
        B(i)  == RSumSeq(PMatV([j \in MemIdx(e, i) |-> (IF mode = "float" THEN X[i][j].tstep ELSE TolMu(mode, X[i][j])) ++ UlpSlack(mode, Obs(e, i, j).mu)
                                                        ++ UlpSlack(mode, Pre(e, i, j).mu)]))
        TS2 == PMatV([i \in 1..n |-> s2(i)])
        Z  == RSumSeq(PMatV([i \in 1..n |-> D(i) // TS2[i]]))
        ZB == RSumSeq(PMatV([i \in 1..n |-> B(i) // TS2[i]]))
        \* Thurstone-Mosteller draws: 2*kappa/c^2 per tied pair that the model compares
        tied == IF kind \notin {"TMF", "TMP"} THEN {}
                ELSE {pr \in (1..n) \X (1..n) : pr[1] < pr[2] /\ ValEq(vals[pr[1]], vals[pr[2]])
                                                /\ (kind = "TMP" => pr[2] \in Ladder(vals, pr[1]))}
        c2(pr) == LET c0 == TS2[pr[1]] ++ TS2[pr[2]] ++ R2(RSq(m.beta)) IN IF kind = "TMP" THEN "4" ** c0 ELSE c0
        tseq  == SetToSeq(tied)
        allow == RSumSeq(PMatV([k \in 1..Len(tseq) |-> R2(m.kappa) // c2(tseq[k])]))
        guard == \E s \in AllSlots(e) : X[s[1]][s[2]].guard
    IN  IF guard THEN {} ELSE
        IF RWithin(Z, "0", ZB ++ (allow ** "1.000001")) THEN {} ELSE {"C07.zero_sum"}

---------------------------------------------------------------------------
\* predictions
IsFloatList(p, n) == IsList(p) /\ Len(p.items) = n /\ \A i \in 1..n : p.items[i].t = "float"

\* C09 (single call): one probability per team, each in [0,1], summing to one; exactly one half each for two identical teams
C09Single(e) ==
  LET n == N(e)  v == e.out.value
  IN  IF ~Ok(e) \/ ~IsFloatList(v, n) \/ \E i \in 1..n : ~RIsReal(v.items[i].v) THEN {"C09.shape"}
      ELSE (IF \E i \in 1..n : RNegative(v.items[i].v) \/ RLt("1", v.items[i].v) THEN {"C09.range"} ELSE {})
           \cup (IF ~RWithin(RSumSeq(PMatV([i \in 1..n |-> v.items[i].v])), "1", RNorm(4 * n) ** Eps) THEN {"C09.sum"} ELSE {})
           \cup (IF n = 2 /\ TeamsVals(e.teams)[1] = TeamsVals(e.teams)[2]
                    /\ ~(REq(v.items[1].v, "0.5") /\ REq(v.items[2].v, "0.5")) THEN {"C09.identical_not_half"} ELSE {})
           \cup (IF \E i, j \in 1..n : i < j /\ TeamsVals(e.teams)[i] = TeamsVals(e.teams)[j]
                                         /\ ~RWithin(v.items[i].v, v.items[j].v, RNorm(4 * n) ** Eps)
                 THEN {"C09.identical_teams_differ"} ELSE {})

\* C12 / C09-C11 closed forms: within 1e-9 absolute of the documented formulas
C12Win(e, W) ==
  LET n == N(e)  v == e.out.value
  IN  IF ~Ok(e) \/ ~IsFloatList(v, n) \/ \E i \in 1..n : ~RIsReal(v.items[i].v) THEN {"C12.win_shape"}
      ELSE {"C12.win[" \o ToString(i) \o "]" : i \in {k \in 1..n : ~RWithin(v.items[k].v, W[k], "1E-9")}}

C10Single(e) ==
  LET v == e.out.value
  IN  IF ~Ok(e) \/ v.t # "float" \/ ~RIsReal(v.v) THEN {"C10.shape"}
      ELSE IF RNegative(v.v) \/ RLt("1", v.v) THEN {"C10.range"} ELSE {}

C12Draw(e, D) ==
  LET v == e.out.value
  IN  IF ~Ok(e) \/ v.t # "float" \/ ~RIsReal(v.v) THEN {"C12.draw_shape"}
      ELSE IF RWithin(v.v, D, "1E-9") THEN {} ELSE {"C12.draw"}

\* predict_rank result: list of (rank, probability) tuples
IsRankList(p, n) == /\ IsList(p) /\ Len(p.items) = n
                    /\ \A i \in 1..n : /\ p.items[i].t = "tuple" /\ Len(p.items[i].items) = 2
                                       /\ p.items[i].items[1].t = "int" /\ p.items[i].items[2].t = "float"
                                       /\ RIsReal(p.items[i].items[2].v)
C11Single(e) ==
  LET n == N(e)  v == e.out.value
  IN  IF ~Ok(e) \/ ~IsRankList(v, n) THEN {"C11.shape"}
      ELSE LET r == PMatV([i \in 1..n |-> RToInt(v.items[i].items[1].v)])
               p == PMatV([i \in 1..n |-> v.items[i].items[2].v])
           IN  (IF \E i \in 1..n : RNegative(p[i]) \/ RLt("1", p[i]) THEN {"C11.range"} ELSE {})
               \cup (IF RankConsistent(r, p) THEN {} ELSE {"C11.rank_inconsistent"})

C12Rank(e, RP) ==
  LET n == N(e)  v == e.out.value
  IN  IF ~Ok(e) \/ ~IsRankList(v, n) THEN {"C12.rank_shape"}
      ELSE {"C12.rank[" \o ToString(i) \o "]" : i \in {k \in 1..n : ~RWithin(v.items[k].items[2].v, RP[k], "1E-9")}}

C08Predict(e) ==
  IF ~Ok(e) THEN {"C08.raised:" \o e.out.exc}
  ELSE LET v == e.out.value
           fin == CASE e.op = "win"  -> IsFloatList(v, N(e)) /\ \A i \in 1..N(e) : RIsReal(v.items[i].v)
                    [] e.op = "draw" -> v.t = "float" /\ RIsReal(v.v)
                    [] e.op = "rank" -> IsRankList(v, N(e))
       IN  IF fin THEN {} ELSE {"C08.not_finite"}
---------------------------------------------------------------------------
\* C17 - the exported Gaussian correction functions: e = [name, x, t, out]
RelOrTiny(got, want, rel) == RWithin(got, want, RAbs(want) ** rel) \/ (RLt(RAbs(got), TinyNorm) /\ RLt(RAbs(want), TinyNorm))

C17(e) ==
  LET name == e.name
      fin  == e.out.kind = "ok" /\ IsNum(e.out.value) /\ RIsReal(e.out.value.v)
      y    == e.out.value.v
      x    == e.x.v
      t    == e.t.v
      big  == RLt("500", RAbs(x))                                   \* exact forms are evaluated for |x| <= 500
      slack == "1E-13" // t
  IN  IF ~fin THEN {"C17.not_finite:" \o name}
      ELSE
      CASE name = "phi_major" ->
             IF big THEN {} ELSE IF RelOrTiny(y, RPhi(x), "1E-12") THEN {} ELSE {"C17.cdf_accuracy"}
        [] name = "v" ->
             (IF RNegative(y) THEN {"C17.v_negative"} ELSE {})
             \cup (IF big THEN {}
                   ELSE LET den == RPhi(x -- t)
                        IN  \* at the guard itself (the code decides in doubles, the specification at 40 digits) either branch may
                            \* have been taken: the value is then within 2 percent of the exact one, whichever it was
                            IF Near(den, Eps) THEN (IF RWithin(y, VExact(x, t), "0.02" ** VExact(x, t)) THEN {} ELSE {"C17.v_off_at_guard"})
                            ELSE IF RLt(den, Eps) THEN (IF RWithin(y, VExact(x, t), "0.02" ** VExact(x, t)) THEN {} ELSE {"C17.v_asymptotic_off"})
                            ELSE (IF RelOrTiny(y, VExact(x, t), "1E-6") THEN {} ELSE {"C17.v_accuracy"}))
        [] name = "w" ->
             (IF RLt(y, RNeg(slack)) \/ RLt("1" ++ slack, y) THEN {"C17.w_range"} ELSE {})
             \cup (IF big THEN {}
                   ELSE LET den == RPhi(x -- t)
                        IN  IF Near(den, Eps) THEN (IF RWithin(y, WExact(x, t), "0.02" ** WExact(x, t)) THEN {} ELSE {"C17.w_off_at_guard"})
                            ELSE IF RLt(den, Eps) THEN (IF RWithin(y, WExact(x, t), "0.02" ** WExact(x, t)) THEN {} ELSE {"C17.w_asymptotic_off"})
                            ELSE (IF RelOrTiny(y, WExact(x, t), "1E-6") THEN {} ELSE {"C17.w_accuracy"}))
        [] name = "vt" ->
             IF big THEN {} ELSE IF RWithin(y, VtExact(x, t), R2(t) ++ "1E-15") THEN {} ELSE {"C17.vt_off"}
        [] name = "wt" ->
             (IF RLt(y, RNeg(slack)) \/ RLt("1" ++ slack, y) THEN {"C17.wt_range"} ELSE {})
             \cup (IF big THEN {} ELSE IF RWithin(y, WtExact(x, t), ("20" ** t) ++ slack) THEN {} ELSE {"C17.wt_off"})
        [] OTHER -> {}

C17Classes(e) ==
  LET x == e.x.v  t == e.t.v
  IN  {"kernel=" \o e.name}
      \cup (IF RLt("500", RAbs(x)) THEN {"huge_x"}
            ELSE IF e.name \in {"v", "w"} THEN
                   (IF Near(RPhi(x -- t), Eps) THEN {"guardband"} ELSE IF RLt(RPhi(x -- t), Eps) THEN {"asymptotic"} ELSE {"computed"})
            ELSE IF e.name = "vt" THEN (IF RLt(Band(x, t), BandGuard) THEN {"asymptotic"} ELSE {"computed"})
            ELSE IF e.name = "wt" THEN (IF RLt(Band(x, t), Eps) THEN {"asymptotic"} ELSE {"computed"})
            ELSE {})
=============================================================================
