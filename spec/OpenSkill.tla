------------------------------ MODULE OpenSkill ------------------------------
(***************************************************************************)
(* The library as a state machine.                                         *)
(*                                                                         *)
(*   models   <<model record, ..>>  - the model objects a program created  *)
(*   config   <<model record, ..>>  - the same objects as their owner has   *)
(*                                    configured them (construction, then  *)
(*                                    Reconfigure); the library never makes *)
(*                                    the two differ (Inv_ModelsAsConfigured)*)
(*   heap     ref -> rating leaf    - every rating object alive, by         *)
(*                                    allocation number                    *)
(*   last     the observation of the last public call, in exactly the      *)
(*            format the recorder writes for the real library (Trace.tla)  *)
(*   depth    number of calls made                                         *)
(*                                                                         *)
(* One action per public operation, atomic at call return (the library is  *)
(* sequential; its linearization point is the call's return or raise).     *)
(* The actions are defined from the operators of Sem.tla - the same        *)
(* operators the trace specification uses to accept recorded executions.   *)
(*                                                                         *)
(* Which calls a bounded instance explores is supplied by the MC_* modules *)
(* through the constant operators RateCalls, PredictCalls, ... (sets of    *)
(* call descriptions in which rating objects are named by ref).            *)
(***************************************************************************)
EXTENDS Rel, Json, VerifIO, IOUtils

CONSTANTS Models,              \* <<model record>> created before the first call
          Cast,                \* initial heap: ref -> rating leaf
          MaxDepth,            \* bound on the number of calls of a behaviour
          RateCalls(_, _),     \* (models, heap) -> set of [m, teams, ranks, scores, tau, limit] (teams: PyVal with leaves named by ref)
          PredictCalls(_, _),  \* (models, heap) -> set of [m, op, teams]
          ObjectCalls(_, _),   \* (models, heap) -> set of object-level call descriptions
          LimitSigmaWriteBack, \* defect D3 (repaired): rate(limit_sigma=b) stores b in the model
          RateEffects          \* subset of {"inplace", "untouched"}: what rate may do to the passed objects (C02 allows both)

VARIABLES models, config, heap, last, depth
vars == <<models, config, heap, last, depth>>

InitObs == [op |-> "init"]

\* a call names rating objects by ref; the observation carries their current projection
RECURSIVE Resolve(_, _)
Resolve(p, h) == IF IsRating(p) THEN (IF p.ref \in DOMAIN h THEN h[p.ref] ELSE p)
                 ELSE IF p.t \in {"list", "tuple"} THEN [p EXCEPT !.items = PMatV([k \in 1..Len(p.items) |-> Resolve(p.items[k], h)])]
                 ELSE p

RefLeaf(r) == [PV("rating", "") EXCEPT !.ref = r]

WriteBack(h, val) == LET L == Leaves(val) IN [r \in DOMAIN h |-> IF \E x \in L : x.ref = r THEN CHOOSE x \in L : x.ref = r ELSE h[r]]

MkObs(op, M, M2, c, out, after, X) ==
  [op |-> op, tid |-> 1, model0 |-> config[M.id], model |-> M, model_after |-> M2,
   teams |-> c.teams, ranks |-> c.ranks, scores |-> c.scores, tau |-> c.tau, limit |-> c.limit,
   ranks_after |-> c.ranks, scores_after |-> c.scores,
   out |-> out, after |-> after, group |-> "", role |-> "", gprop |-> "", aux |-> PNone, X |-> X]

OkOut(v)    == [kind |-> "ok", exc |-> "", value |-> v]
RaiseOut(x) == [kind |-> "raise", exc |-> x, value |-> PNone]

---------------------------------------------------------------------------
\* rate(teams, ranks, scores, tau, limit_sigma)
Rate(d) ==
  LET M  == models[d.m]
      c  == [teams |-> Resolve(d.teams, heap), ranks |-> Resolve(d.ranks, heap), scores |-> Resolve(d.scores, heap),
             tau |-> d.tau, limit |-> d.limit]
      wf == WFRateCall(M.kind, c)
      \* D3: the per-call option is written into the model (after validation)
      M2 == IF LimitSigmaWriteBack /\ wf /\ ~IsNone(d.limit) THEN [M EXCEPT !.limit = IF d.limit.v = "1" THEN "T" ELSE "F"] ELSE M
  IN  /\ depth < MaxDepth
      /\ depth' = depth + 1
      /\ IF ~wf
           THEN /\ last' = MkObs("rate", M, M, c, RaiseOut(RateExc(M.kind, c)), c.teams, <<>>)
                /\ UNCHANGED <<models, config, heap>>
           ELSE /\ UNCHANGED config
                /\ Computable(M, c) = TRUE      \* "= TRUE": evaluated as an expression (TLC would branch on its disjunctions)
                /\ LET X   == RateX(M2, c)
                       val == RateValue(c, X)
                   IN  \E eff \in RateEffects :
                         /\ heap' = IF eff = "inplace" THEN WriteBack(heap, val) ELSE heap
                         /\ last' = MkObs("rate", M, M2, c, OkOut(val), IF eff = "inplace" THEN val ELSE c.teams, X)
                /\ models' = [models EXCEPT ![d.m] = M2]

\* predict_win / predict_draw / predict_rank
FloatPV(x) == PFloat(x)
Predict(d) ==
  LET M  == models[d.m]
      teams == Resolve(d.teams, heap)
      c  == [teams |-> teams, ranks |-> PNone, scores |-> PNone, tau |-> PNone, limit |-> PNone]
      wf == WFTeams(M.kind, teams)
  IN  /\ depth < MaxDepth
      /\ depth' = depth + 1
      /\ UNCHANGED <<models, config, heap>>
      /\ IF ~wf
           THEN last' = [MkObs(d.op, M, M, c, RaiseOut(TeamsExc(M.kind, teams)), teams, <<>>) EXCEPT !.op = d.op]
           ELSE /\ PredictComputable(M, teams) = TRUE
                /\ LET tv == TeamsVals(teams)          \* materialised once (a tuple), not re-resolved at every use
                       v == CASE d.op = "win"  -> LET w == Win(M.beta, tv)
                                                  IN  PList(PMatV([i \in 1..Len(tv) |-> PFloat(w[i])]))
                              [] d.op = "draw" -> PFloat(Draw(M.beta, tv))
                              [] d.op = "rank" -> LET p == RankProb(M.beta, tv)
                                                      r == PMatV(RankOf(p))
                                                  IN  PList(PMatV([i \in 1..Len(tv) |->
                                                        PTuple(<<PInt(RNorm(r[i])), PFloat(p[i])>>)]))
                   IN  last' = MkObs(d.op, M, M, c, OkOut(v), teams, <<>>)

---------------------------------------------------------------------------
\* object-level operations
NextRef == IF DOMAIN heap = {} THEN 1 ELSE 1 + CHOOSE r \in DOMAIN heap : \A s \in DOMAIN heap : s <= r
FreshUid(r) == "uid-" \o ToString(r)

\* model.rating(mu, sigma, name): None means "use the model's default"; 0 and negatives are values
NewRating(d) ==
  LET M == models[d.m]
      r == NextRef
      leaf == PRating(M.kind, r, FreshUid(r),
                      IF IsNone(d.name) THEN "none" ELSE "str", IF IsNone(d.name) THEN "" ELSE d.name.v,
                      IF IsNone(d.mu) THEN M.mu ELSE d.mu.v, IF IsNone(d.sigma) THEN M.sigma ELSE d.sigma.v)
  IN  /\ depth < MaxDepth /\ depth' = depth + 1
      /\ heap' = (r :> leaf) @@ heap
      /\ UNCHANGED <<models, config>>
      /\ last' = [op |-> "rating", tid |-> 1, model |-> M, model_after |-> M, mu |-> d.mu, sigma |-> d.sigma, name |-> d.name,
                  out |-> OkOut(leaf), group |-> "", role |-> "", gprop |-> "", aux |-> PNone]

\* Model.create_rating([mu, sigma], name): exactly a two-element list of numbers
CreateRating(d) ==
  LET M == models[d.m]
      r == NextRef
  IN  /\ depth < MaxDepth /\ depth' = depth + 1
      /\ UNCHANGED <<models, config>>
      /\ IF CreateWF(d.arg)
           THEN LET leaf == PRating(M.kind, r, FreshUid(r),
                                    IF IsNone(d.name) THEN "none" ELSE "str", IF IsNone(d.name) THEN "" ELSE d.name.v,
                                    d.arg.items[1].v, d.arg.items[2].v)
                IN  /\ heap' = (r :> leaf) @@ heap
                    /\ last' = [op |-> "create", tid |-> 1, model |-> M, model_after |-> M, arg |-> d.arg, arg_after |-> d.arg, name |-> d.name,
                                out |-> OkOut(leaf), group |-> "", role |-> "", gprop |-> "", aux |-> PNone]
           ELSE /\ UNCHANGED heap
                /\ last' = [op |-> "create", tid |-> 1, model |-> M, model_after |-> M, arg |-> d.arg, arg_after |-> d.arg, name |-> d.name,
                            out |-> RaiseOut(IF IsRating(d.arg) \/ ~IsList(d.arg) \/ Len(d.arg.items) # 2 THEN "TypeError" ELSE "ValueError"),
                            group |-> "", role |-> "", gprop |-> "", aux |-> PNone]

\* copy.deepcopy(x): fresh objects, same data, nesting preserved
RECURSIVE CopyVal(_, _)
CopyVal(p, base) ==          \* base: first fresh ref; leaves are numbered in order of their own ref (deterministic)
  IF IsRating(p) THEN [p EXCEPT !.ref = base + p.ref]
  ELSE IF p.t \in {"list", "tuple"} THEN [p EXCEPT !.items = PMatV([k \in 1..Len(p.items) |-> CopyVal(p.items[k], base)])]
  ELSE p
DeepCopy(d) ==
  LET arg == Resolve(d.arg, heap)
      base == NextRef + 100
      cp == CopyVal(arg, base)
  IN  /\ depth < MaxDepth /\ depth' = depth + 1
      /\ UNCHANGED <<models, config>>
      /\ heap' = LeafMap(Leaves(cp)) @@ heap
      /\ last' = [op |-> "deepcopy", tid |-> 1, arg |-> arg, arg_after |-> arg, out |-> OkOut(cp),
                  group |-> "", role |-> "", gprop |-> "", aux |-> PNone]

\* a < b etc.; ordinal(z)
OrdinalOf(a, z) == a.mu -- (z ** a.sigma)
Compare(d) ==
  LET a == Resolve(d.a, heap)  b == Resolve(d.b, heap)  op == d.cmpop
      same == IsRating(a) /\ IsRating(b) /\ a.v = b.v
      out == IF same THEN
               (IF op \in OrderOps THEN OkOut(PBool(CmpReal(op, OrdinalOf(a, "3"), OrdinalOf(b, "3"))))
                ELSE LET eq == REq(a.mu, b.mu) /\ REq(a.sigma, b.sigma) IN OkOut(PBool(IF op = "eq" THEN eq ELSE ~eq)))
             ELSE (IF op \in OrderOps THEN RaiseOut("ValueError") ELSE OkOut(PBool(op = "ne")))
  IN  /\ depth < MaxDepth /\ depth' = depth + 1
      /\ IsRating(a) = TRUE
      /\ UNCHANGED <<models, config, heap>>
      /\ last' = [op |-> "cmp", tid |-> 1, cmpop |-> op, a |-> a, b |-> b, a_after |-> a, b_after |-> b,
                  oa |-> PFloat(OrdinalOf(a, "3")), ob |-> IF IsRating(b) THEN PFloat(OrdinalOf(b, "3")) ELSE PNone,
                  out |-> out, group |-> "", role |-> "", gprop |-> "", aux |-> PNone]

\* the caller assigns the public attributes of a rating object (ratings are plain mutable objects)
Assign(d) ==
  LET a == heap[d.ref]
      a2 == [a EXCEPT !.mu = d.mu, !.sigma = d.sigma]
  IN  /\ depth < MaxDepth /\ depth' = depth + 1
      /\ UNCHANGED <<models, config>>
      /\ heap' = [heap EXCEPT ![d.ref] = a2]
      /\ last' = [op |-> "assign", tid |-> 1, a |-> a, a_after |-> a2, out |-> OkOut(PNone),
                  group |-> "", role |-> "", gprop |-> "", aux |-> PNone]

\* the owner assigns a public attribute of a model object: from now on that is its configuration.  Nothing is
\* validated and nothing else changes - whatever the model has been used for before.
Reconfigure(d) ==
  LET M  == models[d.m]
      M2 == [M EXCEPT ![d.attr] = d.value]
  IN  /\ depth < MaxDepth /\ depth' = depth + 1
      /\ models' = [models EXCEPT ![d.m] = M2]
      /\ config' = [config EXCEPT ![d.m] = [@ EXCEPT ![d.attr] = d.value]]
      /\ UNCHANGED heap
      /\ last' = [op |-> "setattr", tid |-> 1, model0 |-> config[d.m], model |-> M, model_after |-> M2,
                  attr |-> d.attr, value |-> d.value, out |-> OkOut(PNone),
                  group |-> "", role |-> "", gprop |-> "", aux |-> PNone]

\* Model(...): a program creates another model object.  d.args names what it passes (PNone = argument omitted);
\* Sem!Construct says what the object then holds.  The new object is the last of `models`, and its configuration
\* is what was asked for.
NoArgs == [mu |-> PNone, sigma |-> PNone, beta |-> PNone, kappa |-> PNone, tau |-> PNone, limit |-> PNone, gamma |-> PNone]
NewModel(d) ==
  LET id == Len(models) + 1
      M  == Construct(d.kind, id, d.args)
  IN  /\ depth < MaxDepth /\ depth' = depth + 1
      /\ models' = Append(models, M)
      /\ config' = Append(config, M)
      /\ UNCHANGED heap
      /\ last' = [op |-> "new_model", tid |-> 1, kind |-> d.kind, args |-> d.args, model |-> M, out |-> OkOut(PNone),
                  group |-> "", role |-> "", gprop |-> "", aux |-> PNone]

---------------------------------------------------------------------------
Init == /\ models = Models /\ config = Models /\ heap = Cast /\ last = InitObs /\ depth = 0

Next == \/ \E d \in RateCalls(models, heap) : Rate(d)
        \/ \E d \in PredictCalls(models, heap) : Predict(d)
        \/ \E d \in ObjectCalls(models, heap) :
              CASE d.op = "rating"   -> NewRating(d)
                [] d.op = "create"   -> CreateRating(d)
                [] d.op = "deepcopy" -> DeepCopy(d)
                [] d.op = "cmp"      -> Compare(d)
                [] d.op = "assign"   -> Assign(d)
                [] d.op = "setattr"  -> Reconfigure(d)
                [] d.op = "new_model" -> NewModel(d)

Spec == Init /\ [][Next]_vars

---------------------------------------------------------------------------
\* Properties of the design, evaluated on every reachable observation with tolerance mode "exact":
\* they are theorems of the rule that were not used to write it down (zero sum, direction, bounds).
IsRate == last.op = "rate"
RateOk == IsRate /\ Ok(last) /\ last.X # <<>>
LCall  == Call(last)

Inv_C02 == RateOk => C02(last, last.X, "exact") = {}
Inv_C05 == RateOk /\ InDomainRate(last.model, LCall) => C05Single(last, last.X, OutcomeVals(LCall), "exact") = {}
Inv_C06 == RateOk /\ InDomainRate(last.model, LCall) => C06(last, EffTau(last.model_after, LCall), EffLimit(last.model_after, LCall), "exact") = {}
Inv_C07 == RateOk /\ InDomainRate(last.model, LCall) => C07(last, last.model, last.X, OutcomeVals(LCall), EffTau(last.model, LCall), "exact") = {}
Inv_C13 == (IsRate => C13Rate(last) = {}) /\ (last.op \in {"win", "draw", "rank"} => C13Predict(last) = {})
Inv_C14 == last.op \in {"rate", "win", "draw", "rank"} => last.model_after = last.model          \* no call changes the model
Inv_Predict ==
  /\ (last.op = "win" /\ Ok(last))  => C09Single(last) = {}
  /\ (last.op = "draw" /\ Ok(last)) => C10Single(last) = {}
  /\ (last.op = "rank" /\ Ok(last)) => C11Single(last) = {}
Inv_Obj == last.op \in {"rating", "create", "deepcopy", "cmp", "assign", "new_model"} =>
             ObjVerdict(last, [r \in {} |-> PNone], {"C18", "C20"}).fails \ {"C20.id_not_fresh"} = {}

\* C15 as the property states it: the effective options are the call's arguments when given (0 and False are
\* values), the constructed model's settings otherwise.  Differs from the step's own resolution only under the
\* defect constants, which is what the negative controls exercise.
TrueEffTau(c)   == IF IsNone(c.tau) THEN last.model0.tau ELSE c.tau.v
TrueEffLimit(c) == IF IsNone(c.limit) THEN last.model0.limit = "T" ELSE c.limit.v = "1"
Inv_C15 == RateOk =>
  LET M == last.model
      Y == RateFn(M.kind, ModelP(M), TeamsVals(last.teams), OutcomeVals(LCall), TrueEffTau(LCall), TrueEffLimit(LCall))
  IN  \A s \in AllSlots(last) : Y[s[1]][s[2]].mu = last.X[s[1]][s[2]].mu /\ Y[s[1]][s[2]].sigma = last.X[s[1]][s[2]].sigma

\* ---- relational theorems of the rule, checked on the specification itself at 1e-28: each recomputes ONE sibling
\*      presentation of the last game.  They cross-check the transcription in Update.tla by facts that were not
\*      used to write it (and state C04, C16, C19 at the design level).
Exact(a, b) == RWithin(a, b, "1E-28" ** ("1" ++ RAbs(a)))
LT == TeamsVals(last.teams)
LV == OutcomeVals(LCall)
LN == Len(LT)
Rev(sq) == [i \in 1..Len(sq) |-> sq[Len(sq) + 1 - i]]
NoTies(v) == \A i, j \in 1..Len(v) : i # j => ~ValEq(v[i], v[j])

\* C04: teams and members listed in reverse order (outcome alongside) - the same posterior for every player
Inv_C04 == RateOk /\ (IsPart(last.model.kind) => NoTies(LV)) =>
  LET M == last.model
      T2 == [i \in 1..LN |-> Rev(LT[LN + 1 - i])]
      Y == RateFn(M.kind, ModelP(M), T2, Rev(LV), EffTau(M, LCall), EffLimit(M, LCall))
  IN  \A s \in AllSlots(last) :
        LET y == Y[LN + 1 - s[1]][Len(LT[s[1]]) + 1 - s[2]]  x == last.X[s[1]][s[2]]
        IN  Exact(x.mu, y.mu) /\ Exact(x.sigma, y.sigma)

\* C16: everything multiplied by 3 (values, beta, tau) multiplies the posterior by 3 under PL and BT;
\*      7.5 added to every mu (equal team sizes) adds 7.5 to every posterior mu and leaves sigma, under every model
Inv_C16 == RateOk /\ last.model.gamma \in {"default", "one", "zero", "big"} =>
  LET M == last.model
      k == "3"
      d == "7.5"
      P3 == [beta |-> M.beta ** k, kappa |-> M.kappa, gamma |-> M.gamma]
      T3 == [i \in 1..LN |-> [j \in 1..Len(LT[i]) |-> [mu |-> LT[i][j].mu ** k, sigma |-> LT[i][j].sigma ** k]]]
      Td == [i \in 1..LN |-> [j \in 1..Len(LT[i]) |-> [mu |-> LT[i][j].mu ++ d, sigma |-> LT[i][j].sigma]]]
      equal == \A i \in 1..LN : Len(LT[i]) = Len(LT[1])
      Y3 == RateFn(M.kind, P3, T3, LV, EffTau(M, LCall) ** k, EffLimit(M, LCall))
      Yd == RateFn(M.kind, ModelP(M), Td, LV, EffTau(M, LCall), EffLimit(M, LCall))
  IN  /\ (~IsTM(M.kind) => \A s \in AllSlots(last) :
             Exact(last.X[s[1]][s[2]].mu ** k, Y3[s[1]][s[2]].mu) /\ Exact(last.X[s[1]][s[2]].sigma ** k, Y3[s[1]][s[2]].sigma))
      /\ (equal => \A s \in AllSlots(last) :
             Exact(last.X[s[1]][s[2]].mu ++ d, Yd[s[1]][s[2]].mu) /\ Exact(last.X[s[1]][s[2]].sigma, Yd[s[1]][s[2]].sigma))

\* C19: on two teams Bradley-Terry with partial pairing is Bradley-Terry with full pairing
Inv_C19 == RateOk /\ last.model.kind = "BTP" /\ LN = 2 =>
  LET M == last.model
      Y == RateFn("BTF", ModelP(M), LT, LV, EffTau(M, LCall), EffLimit(M, LCall))
  IN  \A s \in AllSlots(last) : Y[s[1]][s[2]].mu = last.X[s[1]][s[2]].mu /\ Y[s[1]][s[2]].sigma = last.X[s[1]][s[2]].sigma

\* C03: the same weak order written as its competition ranks gives the identical result
Inv_C03 == RateOk =>
  LET M == last.model
      cr == CompRank(LV)
      canon == [i \in 1..LN |-> IntVal(cr[i])]
      Y == RateFn(M.kind, ModelP(M), LT, canon, EffTau(M, LCall), EffLimit(M, LCall))
  IN  \A s \in AllSlots(last) : Y[s[1]][s[2]].mu = last.X[s[1]][s[2]].mu /\ Y[s[1]][s[2]].sigma = last.X[s[1]][s[2]].sigma

\* the model objects never change except by their owner's hand (action property), and are what the owner configured
ModelsNeverChange == [][models' = models \/ last'.op = "setattr"
                          \/ (last'.op = "new_model" /\ SubSeq(models', 1, Len(models)) = models)]_vars
Inv_ModelsAsConfigured == models = config

\* ---- emission of every explored transition, for replay into the real library
EmitFile == IOEnv.EMIT_FILE
DropX(o) == [f \in (DOMAIN o) \ {"X"} |-> o[f]]
Emit == last.op = "init" \/ EmitLine(EmitFile, ToJson(DropX(last)))
=============================================================================
