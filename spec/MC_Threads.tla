----------------------------- MODULE MC_Threads -----------------------------
EXTENDS Threads
MCConstructed == [limit |-> "F", tau |-> "tau0", beta |-> "beta0"]
MCConstructedT == [limit |-> "T", tau |-> "tau0", beta |-> "beta0"]
=============================================================================
