------------------------------- MODULE Predict -------------------------------
(***************************************************************************)
(* The three predictions as documented pairwise-Gaussian closed forms      *)
(* (property C12), at 40 digits.  T = <<team, ..>>, team = <<[mu, sigma]>>.*)
(* No tau inflation: predictions use the ratings as they are.              *)
(*                                                                         *)
(* Named deviations from a textbook reading, taken from the documentation  *)
(* and the code and stated in DESIGN.md:                                   *)
(*   PredictWinTwoTeamUsesPlayerCount  n = 2: performance variance N*beta^2*)
(*                                     with N the number of *players*      *)
(*   PredictRankUsesTeamCount          predict_rank uses n*beta^2 for every*)
(*                                     n >= 2, also for two teams          *)
(*   BandProbAsCoded                   P(|diff| inside margin) is taken as *)
(*                                     Phi((m-d)/s) - Phi((d-m)/s)         *)
(***************************************************************************)
EXTENDS HPReal, FiniteSets, Sequences

PMat(f) == f \o <<>>
PIdx(s) == 1..Len(s)

TeamMu(team)  == RSumSeq(PMat([j \in PIdx(team) |-> team[j].mu]))
TeamVar(team) == RSumSeq(PMat([j \in PIdx(team) |-> RSq(team[j].sigma)]))
PAgg(T) == PMat([i \in PIdx(T) |-> [mu |-> TeamMu(T[i]), var |-> TeamVar(T[i])]])

RECURSIVE SumLens(_)
SumLens(T) == IF T = <<>> THEN 0 ELSE Len(Head(T)) + SumLens(Tail(T))
Players(T) == SumLens(T)

\* s_ab for count k in the performance variance
PairSd(beta, k, a, b) == RSqrt((RNorm(k) ** RSq(beta)) ++ a.var ++ b.var)

DrawMargin(beta, T) ==
  LET N == Players(T)
  IN  RSqrt(RNorm(N)) ** beta ** RPhiInv(("1" ++ ("1" // RNorm(N))) // "2")

HalfPairs(n) == RNorm(n * (n - 1)) // "2"

Win(beta, T) ==
  LET n == Len(T)
      A == PAgg(T)
  IN  IF n = 2
        THEN LET p == RPhi((A[1].mu -- A[2].mu) // PairSd(beta, Players(T), A[1], A[2]))
             IN  <<p, "1" -- p>>
        ELSE PMat([i \in 1..n |->
               RSumSeq(PMat([q \in 1..n |-> IF q = i THEN "0"
                    ELSE RPhi((A[i].mu -- A[q].mu) // PairSd(beta, n, A[i], A[q]))]))
               // HalfPairs(n)])

Draw(beta, T) ==
  LET n == Len(T)
      A == PAgg(T)
      m == DrawMargin(beta, T)
      pair(a, b) == LET s == PairSd(beta, n, A[a], A[b])
                        d == A[a].mu -- A[b].mu
                    IN  RPhi((m -- d) // s) -- RPhi((d -- m) // s)
      tot == RSumSeq(PMat([a \in 1..n |-> RSumSeq(PMat([b \in 1..n |-> IF a = b THEN "0" ELSE pair(a, b)]))]))
  IN  RAbs(tot) // (IF n > 2 THEN RNorm(n * (n - 1)) ELSE "1")

RankProb(beta, T) ==
  LET n == Len(T)
      A == PAgg(T)
      m == DrawMargin(beta, T)
  IN  PMat([i \in 1..n |->
        RAbs(RSumSeq(PMat([q \in 1..n |-> IF q = i THEN "0"
              ELSE RPhi((A[i].mu -- A[q].mu -- m) // PairSd(beta, n, A[i], A[q]))])) // HalfPairs(n))])

\* ranks from a vector of probabilities (any reals): the rule the library implements,
\* rank = n - (number of maxima) - (number strictly smaller) + 1
RankOf(p) ==
  LET n    == Len(p)
      less(i) == Cardinality({q \in 1..n : RLt(p[q], p[i])})
      nmax == Cardinality({q \in 1..n : \A r \in 1..n : RLeq(p[r], p[q])})
  IN  [i \in 1..n |-> n - nmax - less(i) + 1]

\* what C11 demands of a (rank, probability) vector, whatever rule produced it
RankConsistent(r, p) ==
  LET n == Len(p)
  IN  /\ Len(r) = n
      /\ \A i \in 1..n : r[i] \in 1..n
      /\ \A i, j \in 1..n : /\ RLt(p[j], p[i]) => r[i] < r[j]
                            /\ REq(p[i], p[j]) => r[i] = r[j]
      /\ \E i \in 1..n : r[i] = 1
=============================================================================
