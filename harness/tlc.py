"""Running TLC: build of the Java overrides, invocation, output parsing, sharded trace validation."""
import json
import os
import re
import shutil
import subprocess
import sys
import tempfile
import time
from concurrent.futures import ThreadPoolExecutor

VERIF = os.path.dirname(os.path.dirname(os.path.abspath(__file__)))
SPEC = os.path.join(VERIF, "spec")
JAR = "/opt/veriftools/tla/tla2tools.jar"
DEPS = "/opt/veriftools/tla/CommunityModules-deps.jar"
CP = JAR + ":" + DEPS
NCPU = os.cpu_count() or 4


class MachineryError(Exception):
    """The checking machinery failed (exit 2), as opposed to the property (exit 1)."""


def ensure_built():
    """Compile the module overrides next to their modules when missing or stale."""
    for name in ["HPReal", "VerifIO"]:
        src = os.path.join(SPEC, name + ".java")
        cls = os.path.join(SPEC, name + ".class")
        if not os.path.exists(cls) or os.path.getmtime(cls) < os.path.getmtime(src):
            r = subprocess.run(["javac", "-cp", JAR, "-d", SPEC, src], capture_output=True, text=True)
            if r.returncode != 0:
                raise MachineryError("javac failed for %s:\n%s" % (name, r.stderr))


def workdir(tag):
    base = os.path.join(VERIF, "work")
    os.makedirs(base, exist_ok=True)
    return tempfile.mkdtemp(prefix=tag + "-", dir=base)


def run_tlc(module, cfg_text, wd, env=None, workers=1, heap="2g", extra=None, timeout=3600, simulate=None):
    """Run TLC on spec/<module>.tla with the given cfg text.  Returns (returncode, stdout)."""
    ensure_built()
    # one cfg file per invocation: concurrent shards must never see each other's half-written file
    fd, cfg = tempfile.mkstemp(prefix=module + "_", suffix=".cfg", dir=wd)
    with os.fdopen(fd, "w") as f:
        f.write(cfg_text)
    meta = tempfile.mkdtemp(prefix="meta-", dir=wd)
    # TLC unpacks its standard modules into a fresh directory under java.io.tmpdir on every start and leaves it there
    # (thousands of /tmp/tlc-* after a day): keep them inside the run's own scratch directory, which is removed with it
    jtmp = tempfile.mkdtemp(prefix="jtmp-", dir=wd)
    cmd = ["java", "-Xmx" + heap, "-XX:+UseSerialGC" if workers == 1 else "-XX:+UseParallelGC", "-Djava.io.tmpdir=" + jtmp,
           "-DTLA-Library=" + SPEC, "-cp", CP, "tlc2.TLC",
           "-workers", str(workers), "-metadir", meta, "-noGenerateSpecTE", "-nowarning",
           "-config", cfg]
    if simulate:
        cmd += ["-simulate", simulate]
    if extra:
        cmd += extra
    cmd.append(os.path.join(SPEC, module + ".tla"))
    e = dict(os.environ)
    e.pop("JAVA_TOOL_OPTIONS", None)
    if env:
        e.update(env)
    try:
        r = subprocess.run(cmd, capture_output=True, text=True, env=e, cwd=wd, timeout=timeout)
    except subprocess.TimeoutExpired as ex:
        raise MachineryError("TLC timed out after %ss: %s" % (timeout, " ".join(cmd))) from ex
    finally:
        shutil.rmtree(meta, ignore_errors=True)
        shutil.rmtree(jtmp, ignore_errors=True)
    return r.returncode, r.stdout + r.stderr


# ----------------------------------------------------------------------------- TLA+ value parsing
_tok = re.compile(r'\s*(<<|>>|\{|\}|\[|\]|\|->|,|"(?:[^"\\]|\\.)*"|-?\d+|TRUE|FALSE|[A-Za-z_][A-Za-z_0-9]*)')


def parse_tla(text):
    """Parse a printed TLA+ value (tuples, sets, records, strings, ints, booleans)."""
    toks = _tok.findall(text)
    pos = [0]

    def val():
        t = toks[pos[0]]
        pos[0] += 1
        if t == "<<":
            out = []
            while toks[pos[0]] != ">>":
                out.append(val())
                if toks[pos[0]] == ",":
                    pos[0] += 1
            pos[0] += 1
            return out
        if t == "{":
            out = []
            while toks[pos[0]] != "}":
                out.append(val())
                if toks[pos[0]] == ",":
                    pos[0] += 1
            pos[0] += 1
            return out
        if t == "[":
            out = {}
            while toks[pos[0]] != "]":
                k = toks[pos[0]]
                pos[0] += 1
                assert toks[pos[0]] == "|->", toks[pos[0]]
                pos[0] += 1
                out[k] = val()
                if toks[pos[0]] == ",":
                    pos[0] += 1
            pos[0] += 1
            return out
        if t.startswith('"'):
            return json.loads(t) if "\\" not in t else t[1:-1].replace('\\"', '"').replace("\\\\", "\\")
        if t == "TRUE":
            return True
        if t == "FALSE":
            return False
        if re.fullmatch(r"-?\d+", t):
            return int(t)
        return t

    return val()


def printed_values(out, tag):
    """All values TLC printed with PrintT whose first element is the string tag."""
    vals = []
    lines = out.splitlines()
    i = 0
    start = '<<"%s"' % tag
    start2 = '<< "%s"' % tag
    while i < len(lines):
        ln = lines[i]
        if ln.startswith(start) or ln.startswith(start2):
            buf = ln
            depth = _depth(ln)
            while depth > 0 and i + 1 < len(lines):
                i += 1
                buf += "\n" + lines[i]
                depth += _depth(lines[i])
            vals.append(parse_tla(buf))
        i += 1
    return vals


def _depth(line):
    d = 0
    in_s = False
    k = 0
    while k < len(line):
        ch = line[k]
        if in_s:
            if ch == "\\":
                k += 1
            elif ch == '"':
                in_s = False
        else:
            if ch == '"':
                in_s = True
            elif line.startswith("<<", k):
                d += 1
                k += 1
            elif line.startswith(">>", k):
                d -= 1
                k += 1
            elif ch in "{[":
                d += 1
            elif ch in "}]":
                d -= 1
        k += 1
    return d


def tlc_stats(out):
    """(states generated, distinct states) from TLC's summary line; (0, 0) if absent."""
    m = re.findall(r"(\d+) states generated, (\d+) distinct states found", out)
    if not m:
        return 0, 0
    return int(m[-1][0]), int(m[-1][1])


def tlc_error(out):
    """Text of a TLC error (evaluation error, parse error), or None."""
    if "Error:" in out or "Exception" in out and "at tlc2" in out:
        i = out.find("Error:")
        return out[i:i + 3000] if i >= 0 else out[-3000:]
    return None


# ----------------------------------------------------------------------------- trace validation
TRACE_CFG = """SPECIFICATION Spec
CONSTANTS
  FloatRankUsesIndex = FALSE
  TauZeroFallsBack = FALSE
  Want = {%s}
INVARIANT AllConsumed
POSTCONDITION Accepted
CHECK_DEADLOCK FALSE
"""


def split_traces(events):
    """Split a recorded run at reset events into traces (lists of events, each starting with its reset)."""
    traces = []
    cur = []
    for ev in events:
        if ev["op"] == "reset" and cur:
            traces.append(cur)
            cur = []
        cur.append(ev)
    if cur:
        traces.append(cur)
    return traces


def shard(traces, n, max_events=1500):
    """Distribute traces over shards of bounded size (whole traces only), balancing event counts."""
    total = sum(len(t) for t in traces)
    n = max(1, min(n, len(traces)))
    n = max(n, -(-total // max_events))
    n = min(n, len(traces))
    shards = [[] for _ in range(n)]
    sizes = [0] * n
    order = sorted(range(len(traces)), key=lambda i: -len(traces[i]))
    for i in order:
        k = sizes.index(min(sizes))
        shards[k].append(i)
        sizes[k] += len(traces[i])
    return [sorted(s) for s in shards if s]


def validate(events, want, wd, parallel=NCPU, heap="2500m", timeout=3000, module="Trace"):
    """Validate recorded events with the trace specification.

    Returns dict(results=[(event, fails, classes)], states, transitions, shards, wall_s).
    Raises MachineryError when TLC fails or a trace is not fully consumed.
    """
    t0 = time.time()
    traces = split_traces(events)
    shards = shard(traces, parallel)
    cfg = TRACE_CFG % ", ".join('"%s"' % w for w in sorted(want))
    jobs = []
    for si, idxs in enumerate(shards):
        path = os.path.join(wd, "shard%03d.ndjson" % si)
        evs = []
        with open(path, "w") as f:
            for ti in idxs:
                for ev in traces[ti]:
                    f.write(json.dumps(ev, separators=(",", ":")))
                    f.write("\n")
                    evs.append(ev)
        jobs.append((si, path, evs))

    def one(job):
        si, path, evs = job
        rc, out = run_tlc(module, cfg, wd, env={"TRACE_FILE": path}, workers=1, heap=heap, timeout=timeout)
        return si, evs, rc, out

    results = []
    states = trans = 0
    with ThreadPoolExecutor(max_workers=parallel) as ex:
        for si, evs, rc, out in ex.map(one, jobs):
            err = tlc_error(out)
            if rc != 0 or err:
                log = os.path.join(wd, "shard%03d.tlc.log" % si)
                with open(log, "w") as f:
                    f.write(out)
                raise MachineryError("TLC failed on shard %d (rc=%d), log %s:\n%s" % (si, rc, log, (err or out[-2000:])))
            gen, dist = tlc_stats(out)
            states += dist
            trans += gen
            by_line = {}
            for v in printed_values(out, "EV"):
                by_line[v[1]] = v
            for k, ev in enumerate(evs):
                if ev["op"] == "reset":
                    continue
                v = by_line.get(k + 1)
                if v is None:
                    raise MachineryError("shard %d: no verdict for line %d" % (si, k + 1))
                results.append((ev, sorted(v[3]), sorted(v[4])))
    return {"results": results, "states": states, "transitions": trans, "shards": len(jobs), "wall_s": time.time() - t0}
