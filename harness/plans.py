"""Per-property check plans: which specification instances are model-checked, which
TLC-enumerated calls are replayed into the library, which recorded campaigns are validated."""
import json
import os

import drivers
import tlc
from record import Session
from replay import Replayer
from tlc import MachineryError

CHUNK = 20000  # events validated per round of 16 TLC processes


def validate_events(run, events, want, stage):
    """Validate a recorded run (possibly in several rounds) and add the verdicts."""
    traces = tlc.split_traces(events)
    cur, size = [], 0
    rounds = []
    for t in traces:
        if size + len(t) > CHUNK and cur:
            rounds.append(cur)
            cur, size = [], 0
        cur.extend(t)
        size += len(t)
    if cur:
        rounds.append(cur)
    for k, evs in enumerate(rounds):
        res = tlc.validate(evs, want, run.wd)
        run.add_trace_results(evs, res, "%s#%d" % (stage, k) if len(rounds) > 1 else stage)


def campaign(run, stage, want, gen):
    """gen(sess, rng) records calls; the trace specification judges them."""
    sess = Session()
    gen(sess, run.sub_rng(stage))
    validate_events(run, sess.events, want, stage)
    return sess


def q(run, quick, thorough):
    return quick if run.tier == "quick" else thorough


def replay_file(run, path):
    """Re-execute the calls of a replay file on the current tree and judge them again."""
    body = json.load(open(path))
    rp = Replayer()
    rp.run(body["trace"])
    want = {run.prop}
    validate_events(run, rp.sess.events, want, "replay")
    return {"rule": "replay of " + path}


# ----------------------------------------------------------------------------- plans
RATE_CLASSES = ["kind=PL", "kind=BTF", "kind=BTP", "kind=TMF", "kind=TMP", "ties", "multiway_tie", "teams", "hetero",
                "floor", "clamp", "enc=ranks", "enc=scores", "enc=none", "tau_call", "limit_call", "n=2", "n=3", "n=8"]


def plan_C01(run):
    n = q(run, 2500, 60000)
    campaign(run, "rate-campaign", {"C01"}, lambda s, r: drivers.rate_campaign(s, r, n))
    run.require_classes(RATE_CLASSES + ["gamma=probe", "gamma=big", "gamma=one", "gamma=zero"], "rate-campaign")
    return {"rule": "random rate() calls over the full numeric domain (2-8 teams x 1-8 players, five models, "
                    "configurations, every encoding of the outcome); distinct = distinct coverage-class vectors "
                    "(model, n, tie pattern, shape class, encoding, options, floor/clamp/guard regime)",
            "assumptions": ["agreement is judged with the first-order budget of DESIGN 5 (1e-9 relative per term)",
                            "events inside a 1e-9-relative band around a kernel guard threshold are not compared (class guardband)"]}


def plan_C02(run):
    n = q(run, 2500, 40000)
    campaign(run, "rate-campaign", {"C02"}, lambda s, r: drivers.rate_campaign(s, r, n))
    run.require_classes(RATE_CLASSES, "rate-campaign")
    return {"rule": "random rate() calls; every result checked position by position (shape, id, name, class, "
                    "posterior values of that slot, inputs all-updated or all-untouched)"}


def plan_C05(run):
    n = q(run, 2500, 40000)
    campaign(run, "rate-campaign", {"C05"}, lambda s, r: drivers.rate_campaign(s, r, n))
    run.require_classes(RATE_CLASSES, "rate-campaign")
    return {"rule": "random rate() calls; single-game clauses of C05 (sole winner/loser, team moves together, proportionality)"}


def plan_C06(run):
    n = q(run, 2500, 40000)
    campaign(run, "rate-campaign", {"C06"}, lambda s, r: drivers.rate_campaign(s, r, n))
    run.require_classes(RATE_CLASSES, "rate-campaign")
    return {"rule": "random rate() calls; sigma bounds per game",
            "assumptions": ["strict positivity is not demanded for a player whose prior sigma is 0 under limit_sigma (clamped to the prior)"]}


def plan_C07(run):
    n = q(run, 2500, 40000)
    campaign(run, "rate-campaign", {"C07"}, lambda s, r: drivers.rate_campaign(s, r, n))
    run.require_classes(RATE_CLASSES, "rate-campaign")
    return {"rule": "random rate() calls; precision-weighted zero sum of observed mu changes"}


def plan_C08(run):
    n = q(run, 2500, 60000)
    campaign(run, "rate-campaign", {"C08"}, lambda s, r: drivers.rate_campaign(s, r, n, max_players=16))
    campaign(run, "predict-campaign", {"C08"}, lambda s, r: drivers.predict_campaign(s, r, n // 3, max_players=16))
    return {"rule": "random valid games over the numeric domain incl. boundaries; all four operations must return finite values"}


def plan_predict(prop):
    def plan(run):
        n = q(run, 1500, 30000)
        campaign(run, "predict-campaign", {prop}, lambda s, r: drivers.predict_campaign(s, r, n))
        run.require_classes(["op=win", "op=draw", "op=rank", "n=2", "n=3", "n=8"], "predict-campaign")
        return {"rule": "random valid games, all three predictions on each; five models"}
    return plan


def plan_C13(run):
    n = q(run, 1500, 20000)
    campaign(run, "rate-campaign", {"C13"}, lambda s, r: drivers.rate_campaign(s, r, n))
    return {"rule": "well-formed calls are accepted (malformed grammar: see stage list)"}


def plan_C14(run):
    n = q(run, 1500, 20000)
    campaign(run, "rate-campaign", {"C14"}, lambda s, r: drivers.rate_campaign(s, r, n))
    campaign(run, "predict-campaign", {"C14"}, lambda s, r: drivers.predict_campaign(s, r, n // 3))
    return {"rule": "model attributes compared before/after every call"}


PLANS = {
    "C01": plan_C01,
    "C02": plan_C02,
    "C05": plan_C05,
    "C06": plan_C06,
    "C07": plan_C07,
    "C08": plan_C08,
    "C09": plan_predict("C09"),
    "C10": plan_predict("C10"),
    "C11": plan_predict("C11"),
    "C12": plan_predict("C12"),
    "C13": plan_C13,
    "C14": plan_C14,
}
