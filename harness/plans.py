"""Per-property check plans: which specification instances are model-checked, which
TLC-enumerated calls are replayed into the library, which recorded campaigns are validated."""
import json
import time
import os

import drivers
import mc
import tlc
from record import Session
from replay import Replayer
from tlc import MachineryError

CHUNK = 20000  # events validated per round of 16 TLC processes


def validate_events(run, events, want, stage):
    """Queue a recorded run for validation.  All queued runs of a check are validated together by flush()
    (one round of 16 TLC processes per CHUNK events instead of one round per stage)."""
    if not hasattr(run, "queue"):
        run.queue = []
        run.queue_want = set()
        run.tid_base = 0
    # make trace ids unique across stages
    tids = {}
    out = []
    for ev in events:
        t = ev["tid"]
        if t not in tids:
            run.tid_base += 1
            tids[t] = run.tid_base
        e2 = dict(ev)
        e2["tid"] = tids[t]
        e2["_stage"] = stage
        out.append(e2)
    run.queue.append((stage, out))
    run.queue_want |= set(want)


def flush(run):
    """Validate everything queued, then check the deferred coverage requirements."""
    queue = getattr(run, "queue", [])
    if queue:
        events = [e for (_s, evs) in queue for e in evs]
        traces = tlc.split_traces(events)
        cur, size = [], 0
        rounds = []
        for t in traces:
            if size + len(t) > CHUNK and cur:
                rounds.append(cur)
                cur, size = [], 0
            cur.extend(t)
            size += len(t)
        if cur:
            rounds.append(cur)
        for k, evs in enumerate(rounds):
            res = tlc.validate(evs, run.queue_want, run.wd)
            run.add_trace_results(evs, res, "validation-round-%d" % k)
        counts = {}
        for (st, evs) in queue:
            counts[st] = sum(1 for e in evs if e["op"] != "reset")
        run.stage_info.append({"recorded_events_per_stage": counts})
        run.queue = []
    for needed, stage in getattr(run, "deferred_classes", []):
        missing = [c for c in needed if run.class_counts.get(c, 0) == 0]
        if missing:
            raise MachineryError("vacuous coverage in stage %s: classes never exercised: %s" % (stage, missing))


def campaign(run, stage, want, gen):
    """gen(sess, rng) records calls; the trace specification judges them."""
    run.sampled = True
    sess = Session()
    gen(sess, run.sub_rng(stage))
    validate_events(run, sess.events, want, stage)
    return sess


def q(run, quick, thorough):
    return quick if run.tier == "quick" else thorough


def replay_file(run, path):
    """Re-execute the calls of a replay file on the current tree and judge them again."""
    body = json.load(open(path))
    rp = Replayer()
    rp.run(body["trace"])
    want = {run.prop}
    validate_events(run, rp.sess.events, want, "replay")
    return {"rule": "replay of " + path}


# ----------------------------------------------------------------------------- plans
RATE_CLASSES = ["kind=PL", "kind=BTF", "kind=BTP", "kind=TMF", "kind=TMP", "ties", "multiway_tie", "teams", "hetero",
                "floor", "clamp", "enc=ranks", "enc=scores", "enc=none", "tau_call", "limit_call", "n=2", "n=3", "n=8"]


ALL_KINDS = ["PL", "BTF", "BTP", "TMF", "TMP"]
SETTINGS_QUICK = ["default", "tau0_call", "limit_call", "gamma_probe"]
SETTINGS_ALL = ["default", "tau0_call", "tau0_model", "tau_big", "limit_model", "limit_call", "limit_off_call", "kappa_big",
                "gamma_one", "gamma_big", "gamma_probe", "gamma_zero"]


def plan_C01(run):
    # spec -> code: every game over the cast x every weak order x option settings, enumerated by TLC, replayed into the library
    if run.tier == "quick":
        mc.lattice(run, "cast4-n3", ALL_KINDS, ["default"], 4, 3)
        mc.lattice(run, "cast4-n2-options", ALL_KINDS, ["tau0_call", "limit_call", "gamma_probe", "gamma_big"], 4, 2)
    else:
        mc.lattice(run, "cast4-n3", ALL_KINDS, SETTINGS_ALL, 4, 3)
        mc.lattice(run, "cast4-n4", ALL_KINDS, ["default"], 4, 4)
        mc.lattice(run, "cast5-n3", ["PL", "TMF"], ["default"], 5, 3)
    n = q(run, 1500, 30000)
    # corners of the numeric domain (+-20 beta, sigma 1e-4..10 beta, 16-player teams, beta over six orders of magnitude)
    campaign(run, "extremes", {"C01"}, lambda s, r: drivers.extremes_campaign(s, r, q(run, 500, 10000), ops=("rate",)))
    # stratified over the kernel regimes: mismatch uniform in [0, 9.5] c, win / loss / draw
    campaign(run, "kernel-regimes", {"C01"}, lambda s, r: drivers.tm_regimes(s, r, q(run, 700, 15000)))
    campaign(run, "rate-campaign", {"C01"}, lambda s, r: drivers.rate_campaign(s, r, n))
    run.require_classes(RATE_CLASSES + ["gamma=probe", "gamma=big", "gamma=one", "gamma=zero"], "rate-campaign")
    # behaviours of the state machine (incl. the owner reconfiguring a used model between calls) replayed on live objects
    sequences_stage(run, {"C01"})
    campaign(run, "integer-grid", {"C01"}, lambda s, r: drivers.integer_grid_rate(s, r))
    campaign(run, "ordinal-ties", {"C01"}, lambda s, r: drivers.ordinal_tie_grid(s, r, ("rate",)))
    construct_stage(run, {"C01"})
    return {"rule": "random rate() calls over the full numeric domain (2-8 teams x 1-8 players, five models, "
                    "configurations, every encoding of the outcome); distinct = distinct coverage-class vectors "
                    "(model, n, tie pattern, shape class, encoding, options, floor/clamp/guard regime)",
            "assumptions": ["agreement is judged with the first-order budget of DESIGN 5 (1e-9 relative per term)",
                            "events inside a 1e-9-relative band around a kernel guard threshold are not compared (class guardband)"]}


def plan_C02(run):
    # symbolic (Apalache, all integer outcome vectors of N teams, auxiliary): nobody is dropped, duplicated or moved by sort + un-sort; the ladder is symmetric, adjacent in the outcome, of degree 1-2
    mc.apalache_outcome(run, q(run, [3], [2, 3, 4, 5]), inv="Inv2")
    # spec -> code: all shapes over the cast x all weak orders; and all rank/score vectors over mixed values
    if run.tier == "quick":
        mc.lattice(run, "cast4-n3", ALL_KINDS, ["limit_call"], 4, 3)
        mc.lattice(run, "encodings-n2", ALL_KINDS, ["default"], 3, 2, style="encodings")
    else:
        mc.lattice(run, "cast4-n4", ALL_KINDS, ["default", "limit_call"], 4, 4)
        mc.lattice(run, "encodings-n3", ALL_KINDS, ["default", "limit_model"], 3, 3, style="encodings")
    n = q(run, 1500, 40000)
    campaign(run, "rate-campaign", {"C02"}, lambda s, r: drivers.rate_campaign(s, r, n))
    run.require_classes(RATE_CLASSES, "rate-campaign")
    return {"rule": "random rate() calls; every result checked position by position (shape, id, name, class, "
                    "posterior values of that slot, inputs all-updated or all-untouched)"}


def plan_C03(run):
    n = q(run, 300, 6000)
    # design level: the library's outcome pipeline equals the rule for every tagged vector up to length 3 (quick) or 5 (thorough)
    mc.outcome(run, q(run, 3, 5))
    # symbolic, all integer rank values (not only the ten tagged values of MC_Outcome): Apalache, N teams
    mc.apalache_outcome(run, q(run, [2, 3], [2, 3, 4, 5]))
    # every rank / score vector over mixed values, enumerated by TLC and replayed (C01's comparison then ties each to the rule)
    mc.lattice(run, "encodings", ALL_KINDS, ["default"], 3, q(run, 2, 3), style="encodings", want={"C03"}, group_orders="C03",
               invariants=mc.INV_ALL + ["Inv_C03"])
    campaign(run, "order-groups", {"C03"}, lambda s, r: drivers.order_groups(s, r, n))
    run.require_classes(["group:C03:order", "kind=PL", "kind=BTF", "kind=BTP", "kind=TMF", "kind=TMP", "ties", "enc=scores", "enc=ranks"], "order-groups")
    return {"rule": "one game rated under 8 differently written but order-equivalent outcome arguments (ints, floats, mixed, "
                    "negative, bools, 1e15, 2^53 neighbours, -0.0, scores, omitted); the specification decides equivalence "
                    "(Outcome!SameOrder), results must be bit-identical"}


def plan_C04(run):
    # symbolic (Apalache, all integer outcome vectors of N teams, auxiliary): re-listing the teams moves nothing in the sorted order when mutually tied teams keep their relative order; ranks need no proviso
    mc.apalache_outcome(run, q(run, [3], [2, 3, 4]), inv="Inv3")
    # design level: the rule itself is equivariant (reversed presentation recomputed at 1e-28 on every lattice transition)
    mc.lattice(run, "equivariance", ALL_KINDS, q(run, ["default"], ["default", "limit_call", "gamma_probe"]), 4, q(run, 3, 4),
               invariants=["Inv_C04"], replay=False)
    n = q(run, 120, 2500)
    upto = q(run, 4, 5)
    campaign(run, "perm-groups", {"C04"}, lambda s, r: drivers.perm_groups(s, r, n, "C04", ops=("rate",), exhaustive_upto=upto, max_teams=q(run, 6, 8)))
    run.require_classes(["group:C04:perm", "kind=PL", "kind=BTF", "kind=BTP", "kind=TMF", "kind=TMP", "ties", "teams"], "perm-groups")
    # stratified: every model x every exact relation among the sigmas of a team (a member at the team's mean variance, a team
    # variance that is a perfect square, all equal), every rotation of that team's members
    campaign(run, "sigma-patterns", {"C04"}, lambda s, r: drivers.pattern_groups(s, r, "C04"))
    # stratified: outcome values spanning more than 2^53, as scores and as ranks, in every listing of the teams
    campaign(run, "wide-range-outcomes", {"C04"}, lambda s, r: drivers.widerange_perm_groups(s, r, "C04"))
    return {"rule": "a game and its presentations under team permutations (all n! for n <= %d, sampled above) with members "
                    "permuted; posterior of every player compared across presentations within twice the budget; partial pairing: "
                    "only permutations keeping tied teams in relative order" % upto}


def plan_C05(run):
    mc.lattice(run, "cast4", ALL_KINDS, q(run, ["default"], ["default", "tau_big", "kappa_big", "gamma_one"]), 4, q(run, 3, 4))
    n = q(run, 1000, 30000)
    # stratified over the kernel regimes: mismatch uniform in [0, 9.5] c, win / loss / draw
    campaign(run, "kernel-regimes", {"C05"}, lambda s, r: drivers.tm_regimes(s, r, q(run, 700, 15000)))
    campaign(run, "rate-campaign", {"C05"}, lambda s, r: drivers.rate_campaign(s, r, n))
    run.require_classes(RATE_CLASSES, "rate-campaign")
    campaign(run, "known-finding-witnesses", {"C05"}, lambda s, r: drivers.known_finding_witnesses(s))
    m = q(run, 250, 5000)
    campaign(run, "outcome-groups", {"C05"}, lambda s, r: drivers.outcome_groups(s, r, m))
    run.require_classes(["group:C05:draw", "group:C05:loss", "group:C05:swap"], "outcome-groups")
    campaign(run, "integer-grid", {"C05"}, lambda s, r: drivers.integer_grid_rate(s, r))
    campaign(run, "ordinal-ties", {"C05"}, lambda s, r: drivers.ordinal_tie_grid(s, r, ("rate",)))
    return {"rule": "single-game clauses on random rate() calls (sole winner/loser, team moves together, proportionality); "
                    "two-team games under win/draw/loss; games without ties with two teams exchanging places"}


def plan_C06(run):
    mc.lattice(run, "cast4", ALL_KINDS, q(run, ["tau0_call", "limit_call", "tau_big", "gamma_zero"], SETTINGS_ALL), 4, q(run, 2, 3))
    n = q(run, 1500, 30000)
    campaign(run, "extremes", {"C06"}, lambda s, r: drivers.extremes_campaign(s, r, q(run, 500, 10000), ops=("rate",)))
    # stratified over the kernel regimes: mismatch uniform in [0, 9.5] c, win / loss / draw
    campaign(run, "kernel-regimes", {"C06"}, lambda s, r: drivers.tm_regimes(s, r, q(run, 700, 15000)))
    campaign(run, "rate-campaign", {"C06"}, lambda s, r: drivers.rate_campaign(s, r, n))
    run.require_classes(RATE_CLASSES, "rate-campaign")
    # league histories: every step validated from the observed pre-state, which must be the previous post-state
    campaign(run, "leagues", {"C06"}, lambda s, r: drivers.leagues(s, r, q(run, 15, 48), q(run, 30, 120), q(run, 100, 800), predictions=False))
    construct_stage(run, {"C06"})
    return {"rule": "random rate() calls; sigma bounds per game",
            "assumptions": ["strict positivity is not demanded for a player whose prior sigma is 0 under limit_sigma (clamped to the prior)"]}


def plan_C07(run):
    # symbolic (Apalache, all integer outcome vectors of N teams, auxiliary): the ladder of partial pairing is a symmetric relation (the pairwise terms cancel), for all integer outcome vectors
    mc.apalache_outcome(run, q(run, [3], [2, 3, 4, 5]), inv="Inv2")
    mc.lattice(run, "cast4", ALL_KINDS, q(run, ["default"], ["default", "tau_big", "kappa_big", "gamma_probe"]), 4, q(run, 3, 4))
    n = q(run, 1500, 40000)
    campaign(run, "extremes", {"C07"}, lambda s, r: drivers.extremes_campaign(s, r, q(run, 500, 10000), ops=("rate",)))
    # stratified over the kernel regimes: mismatch uniform in [0, 9.5] c, win / loss / draw
    campaign(run, "kernel-regimes", {"C07"}, lambda s, r: drivers.tm_regimes(s, r, q(run, 700, 15000)))
    campaign(run, "rate-campaign", {"C07"}, lambda s, r: drivers.rate_campaign(s, r, n))
    run.require_classes(RATE_CLASSES, "rate-campaign")
    campaign(run, "integer-grid", {"C07"}, lambda s, r: drivers.integer_grid_rate(s, r))
    campaign(run, "ordinal-ties", {"C07"}, lambda s, r: drivers.ordinal_tie_grid(s, r, ("rate",)))
    return {"rule": "random rate() calls; precision-weighted zero sum of observed mu changes"}


def plan_C08(run):
    campaign(run, "extremes", {"C08"}, lambda s, r: drivers.extremes_campaign(s, r, q(run, 1200, 30000)))
    n = q(run, 1500, 60000)
    campaign(run, "rate-campaign", {"C08"}, lambda s, r: drivers.rate_campaign(s, r, n, max_players=16))
    campaign(run, "predict-campaign", {"C08"}, lambda s, r: drivers.predict_campaign(s, r, n // 3, max_players=16))
    return {"rule": "random valid games over the numeric domain incl. boundaries; all four operations must return finite values"}


PRED_CLASSES = ["op=win", "op=draw", "op=rank", "n=2", "n=3", "n=8", "kind=PL", "kind=BTF", "kind=BTP", "kind=TMF", "kind=TMP"]


def plan_C09(run):
    # spec -> code: the three predictions on every game over the cast (all shapes, up to 3 quick / 4 thorough teams), five models
    mc.lattice(run, "predict", ALL_KINDS, ["default"], q(run, 4, 5), q(run, 3, 4), style="predict", invariants=mc.INV_PREDICT)
    # corners of the numeric domain (saturated pairs beside wide ones, 16-player teams, beta over six orders of magnitude)
    campaign(run, "extremes", {run.prop}, lambda s, r: drivers.extremes_campaign(s, r, q(run, 400, 8000), ops=("win", "draw", "rank")))
    n = q(run, 800, 20000)
    campaign(run, "predict-campaign", {"C09"}, lambda s, r: drivers.predict_campaign(s, r, n))
    run.require_classes(PRED_CLASSES, "predict-campaign")
    m = q(run, 150, 3000)
    campaign(run, "perm-groups", {"C09"}, lambda s, r: drivers.perm_groups(s, r, m, "C09", ops=("win",), exhaustive_upto=q(run, 3, 5), max_teams=8))
    campaign(run, "saturated-tie-perms", {"C09"}, lambda s, r: drivers.saturated_tie_perms(s, r, "C09", ("win",)))
    campaign(run, "increments", {"C09"}, lambda s, r: drivers.predict_relations(s, r, m))
    run.require_classes(["group:C09:perm", "group:C09:inc"], "relations")
    campaign(run, "integer-grid", {"C09"}, lambda s, r: drivers.integer_grid(s, r, ("win",)))
    campaign(run, "ordinal-ties", {"C09"}, lambda s, r: drivers.ordinal_tie_grid(s, r, ("win",)))
    return {"rule": "predict_win on random games: distribution clauses; permuted presentations; one member's mu raised by a ladder of steps from 1 ulp to 10 beta"}


def plan_C10(run):
    # spec -> code: the three predictions on every game over the cast (all shapes, up to 3 quick / 4 thorough teams), five models
    mc.lattice(run, "predict", ALL_KINDS, ["default"], q(run, 4, 5), q(run, 3, 4), style="predict", invariants=mc.INV_PREDICT)
    # corners of the numeric domain (saturated pairs beside wide ones, 16-player teams, beta over six orders of magnitude)
    campaign(run, "extremes", {run.prop}, lambda s, r: drivers.extremes_campaign(s, r, q(run, 400, 8000), ops=("win", "draw", "rank")))
    n = q(run, 800, 20000)
    campaign(run, "predict-campaign", {"C10"}, lambda s, r: drivers.predict_campaign(s, r, n))
    run.require_classes(PRED_CLASSES, "predict-campaign")
    m = q(run, 150, 3000)
    campaign(run, "perm-groups", {"C10"}, lambda s, r: drivers.perm_groups(s, r, m, "C10", ops=("draw",), exhaustive_upto=q(run, 3, 5), max_teams=8))
    campaign(run, "saturated-tie-perms", {"C10"}, lambda s, r: drivers.saturated_tie_perms(s, r, "C10", ("draw",)))
    campaign(run, "gap-equalised", {"C10"}, lambda s, r: drivers.predict_relations(s, r, m))
    run.require_classes(["group:C10:perm", "group:C10:gap", "group:C10:equalised"], "relations")
    campaign(run, "integer-grid", {"C10"}, lambda s, r: drivers.integer_grid(s, r, ("draw",)))
    campaign(run, "ordinal-ties", {"C10"}, lambda s, r: drivers.ordinal_tie_grid(s, r, ("draw",)))
    return {"rule": "predict_draw on random games: range; order independence; two-team widening gaps; equalised totals",
            "assumptions": ["sigma >= 1e-4 beta (below 1e-8 beta the two-team value is 1 + 4e-16, DESIGN 2)"]}


def plan_C11(run):
    # symbolic (Apalache, every vector of N totally ordered values, auxiliary): the ranks predict_rank attaches are in 1..N, strictly
    # better for a strictly larger value, shared by equal values, 1 for a maximal one, and depend on the values only through their order
    mc.apalache_outcome(run, q(run, [3], [2, 3, 4, 5]), inv="Inv4")
    # spec -> code: the three predictions on every game over the cast (all shapes, up to 3 quick / 4 thorough teams), five models
    mc.lattice(run, "predict", ALL_KINDS, ["default"], q(run, 4, 5), q(run, 3, 4), style="predict", invariants=mc.INV_PREDICT)
    # corners of the numeric domain (saturated pairs beside wide ones, 16-player teams, beta over six orders of magnitude)
    campaign(run, "extremes", {run.prop}, lambda s, r: drivers.extremes_campaign(s, r, q(run, 400, 8000), ops=("win", "draw", "rank")))
    n = q(run, 800, 20000)
    campaign(run, "predict-campaign", {"C11"}, lambda s, r: drivers.predict_campaign(s, r, n))
    run.require_classes(PRED_CLASSES, "predict-campaign")
    campaign(run, "near-ties", {"C11"}, lambda s, r: drivers.near_tie_ranks(s, r, q(run, 4000, 60000)))
    m = q(run, 200, 4000)
    campaign(run, "rank-plus-draw", {"C11"}, lambda s, r: drivers.predict_relations(s, r, m))
    run.require_classes(["group:C11:rank_draw"], "relations")
    campaign(run, "integer-grid", {"C11"}, lambda s, r: drivers.integer_grid(s, r, ("rank",)))
    campaign(run, "ordinal-ties", {"C11"}, lambda s, r: drivers.ordinal_tie_grid(s, r, ("rank",)))
    return {"rule": "predict_rank on random games incl. exactly identical teams: rank/probability consistency on the returned floats; rank + draw = 1 for n >= 3"}


def plan_C12(run):
    # spec -> code: the three predictions on every game over the cast (all shapes, up to 3 quick / 4 thorough teams), five models
    mc.lattice(run, "predict", ALL_KINDS, ["default"], q(run, 4, 5), q(run, 3, 4), style="predict", invariants=mc.INV_PREDICT)
    # corners of the numeric domain (saturated pairs beside wide ones, 16-player teams, beta over six orders of magnitude)
    campaign(run, "extremes", {run.prop}, lambda s, r: drivers.extremes_campaign(s, r, q(run, 400, 8000), ops=("win", "draw", "rank")))
    n = q(run, 1200, 30000)
    campaign(run, "predict-campaign", {"C12"}, lambda s, r: drivers.predict_campaign(s, r, n))
    run.require_classes(PRED_CLASSES, "predict-campaign")
    # predictions on live, repeatedly re-rated objects of one model (caches keyed by identity or id would show here)
    campaign(run, "leagues", {"C12"}, lambda s, r: drivers.leagues(s, r, q(run, 15, 80), q(run, 12, 40), q(run, 60, 400)))
    campaign(run, "integer-grid", {"C12"}, lambda s, r: drivers.integer_grid(s, r, ("win", "draw", "rank")))
    campaign(run, "ordinal-ties", {"C12"}, lambda s, r: drivers.ordinal_tie_grid(s, r, ("win", "draw", "rank")))
    construct_stage(run, {"C12"})
    return {"rule": "all three predictions on random games against the 40-digit closed forms of Predict.tla, 1e-9 absolute",
            "assumptions": ["predict_rank on two teams uses n*beta^2 (the n-team form); band probability as coded (DESIGN 3.2)"]}


def plan_C13(run):
    # spec -> code: the grammar of malformed arguments enumerated by TLC and replayed into the five classes
    mc.grammar(run, "grammar", ALL_KINDS, q(run, ["1-1", "2-1"], ["1-1", "2-1", "1-1-2"]))
    campaign(run, "foreign-pairs", {"C13"}, lambda s, r: drivers.foreign_pairs(s, r))      # all 20 ordered (host, foreign) pairs
    n = q(run, 4, 120)
    campaign(run, "malformed-grammar", {"C13"}, lambda s, r: drivers.malformed_campaign(s, r, n))
    campaign(run, "damaged-in-place", {"C13"}, lambda s, r: drivers.damaged_in_place(s, r))
    run.require_classes(["malformed", "raise:TypeError", "raise:ValueError", "ok", "op=win", "op=draw", "op=rank"], "malformed-grammar")
    m = q(run, 600, 10000)
    campaign(run, "rate-campaign", {"C13"}, lambda s, r: drivers.rate_campaign(s, r, m))
    return {"rule": "16 substituted values at every position of teams / ranks / scores of valid games, wrong lengths, too few "
                    "teams, empty teams, both selectors, unusual well-formed selectors; four operations; the specification "
                    "(PyVal!WFRateCall, read from the property's sentence) decides which calls are malformed",
            "assumptions": ["falsy non-list selectors (0, '', ()) are treated by the library as omitted and are not generated",
                            "acceptance of well-formed calls is demanded on the numeric domain (sigma = 0 with tau = 0 is outside it)"]}


def shift_refs(ev, off, midoff):
    """Make allocation numbers and model ids of one process disjoint from the others'."""
    def walk(p):
        if isinstance(p, dict):
            if p.get("t") == "rating":
                p["ref"] += off
            for v in p.values():
                walk(v)
        elif isinstance(p, list):
            for v in p:
                walk(v)
    walk(ev)
    for k in ("model", "model_after", "model0"):
        if k in ev:
            ev[k]["id"] += midoff
    return ev


def process_stage(run, count):
    """The same scripted calls in three processes (PYTHONHASHSEED 0 / 1 / 4242; the third with polluting
    earlier calls); merged so that the trace specification compares them call by call."""
    import subprocess
    import sys as _sys
    here = os.path.dirname(os.path.abspath(__file__))
    cfgs = [("0", "plain"), ("1", "plain"), ("4242", "polluted")]
    outs = []
    procs = []
    for i, (hs, mode) in enumerate(cfgs):
        out = os.path.join(run.wd, "proc%d.ndjson" % i)
        outs.append(out)
        env = dict(os.environ)
        env["PYTHONHASHSEED"] = hs
        procs.append(subprocess.Popen([_sys.executable, os.path.join(here, "child.py"), str(run.seed), str(count), mode, out], env=env))
    for p in procs:
        if p.wait() != 0:
            raise MachineryError("child process failed")
    streams = []
    for i, out in enumerate(outs):
        evs = [json.loads(l) for l in open(out)]
        streams.append(tlc.split_traces(evs))
    merged = []
    for k in range(count):
        tid = k + 1
        merged.append({"op": "reset", "tid": tid})
        # ungrouped (polluting) events first, then the grouped calls process by process per group
        per = [[shift_refs(e, 100000 * i, 1000 * i) for e in streams[i][k] if e["op"] != "reset"] for i in range(len(cfgs))]
        for i in range(len(cfgs)):
            for e in per[i]:
                if not e["group"]:
                    e["tid"] = tid
                    merged.append(e)
        gids = [e["group"] for e in per[0] if e["group"]]
        for g in gids:
            for i in range(len(cfgs)):
                for e in per[i]:
                    if e["group"] == g:
                        e["tid"] = tid
                        e["role"] = "base" if i == 0 else "same"
                        merged.append(e)
    validate_events(run, merged, {"C14"}, "three-processes")
    run.notes.append("process stage: %d scripted calls x 3 processes (PYTHONHASHSEED 0, 1, 4242; the third with polluting earlier calls)" % (4 * count))


def cold_start_stage(run, cases, points):
    """The first calls a process makes, made concurrently (harness/child_first.py): for every case the two calls run one after
    another here (`base`), and in `points` fresh processes each as two threads, thread 0 pre-empted after k executed lines of
    library code (k spread over the whole call), thread 1 running to completion in between (`same`)."""
    import subprocess
    import sys as _sys
    from concurrent.futures import ThreadPoolExecutor

    import child_first
    import sched

    here = os.path.dirname(os.path.abspath(__file__))
    sess = Session()
    jobs = []
    for case in range(cases):
        kind, params, g, calls = child_first.script(run.seed, case)
        # how many lines does thread 0 execute?  (a dry run in its own process, unconstrained)
        out = os.path.join(run.wd, "cold-%d-dry.json" % case)
        subprocess.run([_sys.executable, os.path.join(here, "child_first.py"), str(run.seed), str(case), "-1", out], check=True,
                       env=dict(os.environ, PYTHONHASHSEED="0"))
        total = json.load(open(out))["lines"]
        rng = run.sub_rng("cold/%d" % case)
        ks = sorted(set([0, 1, 2] + [rng.randrange(0, max(total, 1)) for _ in range(points)]))
        for k in ks:
            jobs.append((case, k, os.path.join(run.wd, "cold-%d-%d.json" % (case, k))))

    def one(job):
        case, k, out = job
        r = subprocess.run([_sys.executable, os.path.join(here, "child_first.py"), str(run.seed), str(case), str(k), out],
                           capture_output=True, text=True, env=dict(os.environ, PYTHONHASHSEED="0"))
        if r.returncode != 0:
            raise MachineryError("cold-start child failed: " + r.stderr[-1500:])
        return job

    with ThreadPoolExecutor(max_workers=tlc.NCPU) as ex:
        done = list(ex.map(one, jobs))
    merged = []
    log = []
    tid = 0
    for case, k, out in done:
        kind, params, g, calls = child_first.script(run.seed, case)
        d = json.load(open(out))
        kids = [e for e in d["events"] if e.get("group")]
        # the same calls, one after another, in this (long-running, warmed-up) process
        s2 = Session()
        s2.reset()
        fresh = s2.model(kind, gamma=g, **params)
        for ci, c in enumerate(calls):
            teams = drivers.make_teams(fresh, c["vals"])
            if c["op"] == "rate":
                s2.rate(fresh, teams, **c["kw"])
            else:
                s2.predict(c["op"], fresh, teams)
        bases = [e for e in s2.events if e["op"] in ("rate", "win", "draw", "rank")]
        tid += 1
        merged.append({"op": "reset", "tid": tid})
        for ci, b in enumerate(bases):
            gid = "C14:cold%d.%d.%d" % (case, k, ci)
            b = dict(b, tid=tid, group=gid, role="base", gprop="C14")
            merged.append(b)
            for e in kids:
                if e["group"].endswith(".%d" % ci):
                    merged.append(dict(shift_refs(e, 100000, 1000), tid=tid, group=gid, role="same", gprop="C14"))
        log.extend(d["log"])
    validate_thread_log(run, log, "cold-start-thread-events")
    validate_events(run, merged, {"C14"}, "cold-start")
    run.notes.append("cold start: %d cases x sampled switch points = %d fresh processes, line-level pre-emption" % (cases, len(jobs)))


def sequences_stage(run, want):
    """Behaviours of the state machine replayed on live objects: random walks (and exhaustive depth 2 in thorough)."""
    kinds = ALL_KINDS if run.tier == "thorough" else [ALL_KINDS[(run.seed + 1) % 5], ALL_KINDS[(run.seed + 3) % 5]]
    for i, kind in enumerate(kinds):
        mc.sequences(run, kind, q(run, 6, 8), want, walks=q(run, 200, 1000), seed=run.seed + i)
    # exhaustive: depth 1 (quick) / depth 2 (thorough: 21 757 states, every behaviour replayed) for one kind, chosen by the seed
    mc.sequences(run, ALL_KINDS[run.seed % 5], q(run, 1, 2), want)


def construct_stage(run, want):
    """Model construction as an operation: the arguments given (or omitted) against what the object holds (Sem!Construct),
    then the model in use.  Clauses <prop>.model_not_as_constructed:<attr> belong to every property that speaks of that attribute."""
    n = q(run, 60, 1500)
    campaign(run, "construct", want, lambda s, r: drivers.construct_campaign(s, r, n))
    run.require_classes(["op=new_model"], "construct")


def plan_C14(run):
    # unbounded: TLAPS proves the two thread theorems of Threads.tla for any number of threads and reads (auxiliary)
    mc.tlaps_threads(run)
    sequences_stage(run, {"C14"})
    pairs = [(a, b) for a in range(0, 31, 3) for b in range(0, 31, 3)] if run.tier == "thorough" else None
    threads_stage(run, q(run, 60, 400), None)
    if pairs:
        threads_stage(run, 12, pairs)
    process_stage(run, q(run, 120, 2500))
    cold_start_stage(run, q(run, 20, 60), q(run, 6, 20))
    n = q(run, 150, 3000)
    campaign(run, "history-groups", {"C14"}, lambda s, r: drivers.same_groups(s, r, n))
    run.require_classes(["group:C14:same"], "history-groups")
    m = q(run, 600, 10000)
    campaign(run, "rate-campaign", {"C14"}, lambda s, r: drivers.rate_campaign(s, r, m))
    campaign(run, "predict-campaign", {"C14"}, lambda s, r: drivers.predict_campaign(s, r, m // 3))
    campaign(run, "leagues", {"C14"}, lambda s, r: drivers.leagues(s, r, q(run, 15, 80), q(run, 10, 40), q(run, 40, 300), twin=True, prop="C14"))
    return {"rule": "the same call on a fresh model and on a model with a history of calls with every per-call option, "
                    "with different ids / names / objects: bit-identical results; model attributes compared around every call"}


def plan_C15(run):
    n = q(run, 300, 6000)
    # every option setting (model-level and per-call) on the lattice: the effective options of Sem.tla against the code
    mc.lattice(run, "options", ALL_KINDS, ["tau0_call", "tau0_model", "limit_call", "limit_model", "limit_off_call"], 4, 2, want={"C15", "C01"})
    campaign(run, "effopts-groups", {"C15"}, lambda s, r: drivers.effopts_groups(s, r, n))
    run.require_classes(["group:C15:effopts", "clamp", "limit", "kind=PL", "kind=BTF", "kind=BTP", "kind=TMF", "kind=TMP"], "effopts-groups")
    # behaviours of the state machine (incl. the owner reconfiguring a used model between calls) replayed on live objects
    sequences_stage(run, {"C15"})
    construct_stage(run, {"C15"})
    return {"rule": "M(tau=t, limit_sigma=b).rate(g) against M(other).rate(g, tau=t, limit_sigma=b), each option alone, and explicit None; "
                    "t in {0, 0.0, 1e-9 beta, default, 10 beta, random}; bit-identical results"}


def plan_C16(run):
    # design level: the rule is covariant under x3 scaling (PL, BT) and +7.5 shifts (equal sizes), at 1e-28
    mc.lattice(run, "scale-shift", ALL_KINDS, q(run, ["default"], ["default", "limit_call", "tau_big", "gamma_one"]), 4, q(run, 3, 4),
               invariants=["Inv_C16"], replay=False)
    n = q(run, 100, 2000)
    campaign(run, "scale-groups", {"C16"}, lambda s, r: drivers.scale_groups(s, r, n))
    run.require_classes(["group:C16:scaled", "group:C16:shifted"], "scale-groups")
    # stratified: every model x limit_sigma x tau with newcomers (players exactly at the model's own prior) in the game
    campaign(run, "newcomers", {"C16"}, lambda s, r: drivers.newcomer_groups(s, r))
    construct_stage(run, {"C16"})
    return {"rule": "games rescaled by k in {2^-10, 2^10, 1e-3, 0.3, 7, 1e3, random} (model mu/sigma/beta/tau with them) and "
                    "shifted by constants; rate for PL/BT within twice the budget, all predictions within 1e-12"}


def plan_C17(run):
    step = q(run, 0.1, 0.02)
    nts = q(run, 7, 19)
    campaign(run, "kernel-sweep", {"C17"}, lambda s, r: drivers.kernel_sweep(s, r, step, nts, q(run, 3000, 60000)))
    run.require_classes(["kernel=v", "kernel=w", "kernel=vt", "kernel=wt", "kernel=phi_major", "asymptotic", "computed", "huge_x"], "kernel-sweep")
    return {"rule": "x over [-40, 40] step %g x %d log-spaced t in [1e-8, 1e-2], random points, +-64 ulp around every branch threshold "
                    "(located by bisection on the implementation's observable branch switch), huge |x|; exact V, W, V~, W~ and Phi at 40 digits" % (step, nts),
            "assumptions": ["'rounding of order 1e-14/t' is read as 1e-13/t", "v, w 1e-6 relative or both below 2^-1022",
                            "points within 1e-9 relative of a guard threshold may take either branch",
                            "exact forms compared for |x| <= 500; beyond only finiteness and range"]}


def plan_C18(run):
    sequences_stage(run, {"C18"})
    n = q(run, 100, 3000)
    campaign(run, "object-campaign", {"C18"}, lambda s, r: drivers.object_campaign(s, r, n))
    run.require_classes(["op=cmp", "op=ordinal", "op=sorted", "raise:ValueError"], "object-campaign")
    return {"rule": "comparisons of pairs from a grid with many equal ordinals and random floats, six operators, foreign operands "
                    "(other classes' ratings, int, float, str, None, tuple, list); ordinal(z); sorted()"}


def plan_C19(run):
    # design level: Bradley-Terry partial = full on every two-team game of the lattice
    mc.lattice(run, "bt-part-full", ["BTP"], q(run, ["default", "limit_call"], SETTINGS_ALL), 4, 2, invariants=["Inv_C19"], replay=False)
    # the grammar of malformed (and well-formed) calls enumerated by TLC, the corresponding call on all five classes:
    # accepted / rejected alike, with the same exception class
    mc.grammar(run, "grammar-x5", ALL_KINDS, q(run, ["1-1"], ["1-1", "2-1", "1-1-2"]), group_models="C19")
    n = q(run, 80, 1500)
    campaign(run, "model-groups", {"C19"}, lambda s, r: drivers.model_groups(s, r, n))
    campaign(run, "api", {"C19"}, lambda s, r: drivers.api_groups(s))
    campaign(run, "hashes", {"C19"}, lambda s, r: drivers.object_campaign(s, r, q(run, 40, 400)))
    run.require_classes(["group:C19:model", "group:C19:same", "op=api", "op=hash", "op=cmp"], "model-groups")
    construct_stage(run, {"C19"})
    return {"rule": "the same call (rate and the three predictions, value-identical ratings, same parameters) on all five classes; "
                    "operation tables and signatures compared; hashes of equal (id, mu, sigma) compared across classes"}


def plan_C20(run):
    sequences_stage(run, {"C20"})
    n = q(run, 80, 2500)
    campaign(run, "object-campaign", {"C20"}, lambda s, r: drivers.object_campaign(s, r, n))
    campaign(run, "twin-leagues", {"C20"}, lambda s, r: drivers.restore_groups(s, r, n))
    campaign(run, "leagues", {"C20"}, lambda s, r: drivers.leagues(s, r, q(run, 15, 80), q(run, 10, 40), q(run, 40, 300), twin=True, prop="C20"))
    run.require_classes(["op=rating", "op=create", "op=deepcopy", "group:C20:same"], "object-campaign")
    construct_stage(run, {"C20"})
    return {"rule": "constructors with None/0/-0.0/negative/huge values and names; deepcopy of ratings and nested lists; twin leagues "
                    "(live objects vs rebuilt from stored (mu, sigma) by create_rating / rating / deepcopy before every game)"}


STAGE_CLASSES = ["stage:sort", "stage:unsort", "stage:rankings", "stage:agg", "stage:ladder", "stage:c", "stage:sum_q", "stage:a", "stage:gamma"]


def plan_stages(run):
    """Not a listed property: the intermediate values of rate (observed on the library's own helpers) against the
    operators of the specification that model those steps (Stages.tla)."""
    def on(fn):
        def gen(s, r):
            s.stages_on = True
            fn(s, r)
        return gen
    n = q(run, 1500, 30000)
    campaign(run, "rate-campaign", {"S"}, on(lambda s, r: drivers.rate_campaign(s, r, n)))
    campaign(run, "order-groups", {"S"}, on(lambda s, r: drivers.order_groups(s, r, q(run, 150, 2000))))
    campaign(run, "extremes", {"S"}, on(lambda s, r: drivers.extremes_campaign(s, r, q(run, 300, 5000), ops=("rate",))))
    # the inside of the predictions: the CDF's arguments against the rule's standardised differences, the aggregates, the
    # quantile asked for, the ranking
    campaign(run, "predict-campaign", {"S"}, on(lambda s, r: drivers.predict_campaign(s, r, q(run, 400, 8000))))
    campaign(run, "predict-integer-grid", {"S"}, on(lambda s, r: drivers.integer_grid(s, r, ("win", "draw", "rank"))))
    # no coverage requirement: a refactoring may remove or rename a helper, which then simply yields no record
    # (which stage kinds were observed is in the report's class_counts)
    return {"rule": "the helpers' observed arguments and results during rate() against Outcome!SortPerm / RunIdx / Pos / Ladder and "
                    "Update!Agg / PLc / PLSumQ / PairC / TieSize"}


EXTRAS_CFG = """SPECIFICATION Spec
CONSTANTS
  FloatRankUsesIndex = FALSE
  TauZeroFallsBack = FALSE
  MaxLen = %d
INVARIANT Inv_ArgSort
INVARIANT Inv_RankData
INVARIANT Inv_RankOfIsReversedRankData
INVARIANT Inv_RankOfConsistent
INVARIANT Inv_UnwindRoundTrip
INVARIANT Inv_Ladder
INVARIANT Inv_Transpose
"""


def plan_extras(run):
    """Not a listed property: the rest of the surface (spec/Extras.tla) - text forms, team-rating objects, module-level
    helpers, the registry, create_rating's error classes; and the helper rules model-checked against their definitions."""
    import extras

    t0 = time.time()
    n = q(run, 4, 6)
    rc, out = tlc.run_tlc("MC_Extras", EXTRAS_CFG % n, run.wd, workers=tlc.NCPU, heap="4g")
    if rc != 0 or "No error has been found" not in out:
        raise MachineryError("MC_Extras failed (rc=%d)\n%s" % (rc, out[-2500:]))
    gen, dist = tlc.tlc_stats(out)
    run.states += dist
    run.transitions += gen
    run.mc_runs.append({"module": "MC_Extras", "instance": "vectors<=%d" % n, "distinct_states": dist, "states_generated": gen,
                        "wall_s": round(time.time() - t0, 1), "exhaustive": True})
    campaign(run, "extras", {"X"}, lambda s, r: extras.extras_campaign(s, r))
    return {"rule": "repr/str templates, team-rating fields / == / hash, _unary_minus, _arg_sort, _rank_data, _matrix_transpose, _unwind (and its "
                    "round trip), _ladder_pairs, phi_minor, phi_major_inverse, the default gamma, MODELS, create_rating's exception classes - "
                    "each against the rule of Extras.tla; the rules against their definitions in MC_Extras"}


PLANS = {
    "stages": plan_stages,
    "extras": plan_extras,
    "C01": plan_C01,
    "C02": plan_C02,
    "C05": plan_C05,
    "C06": plan_C06,
    "C07": plan_C07,
    "C08": plan_C08,
    "C03": plan_C03,
    "C04": plan_C04,
    "C09": plan_C09,
    "C10": plan_C10,
    "C11": plan_C11,
    "C12": plan_C12,
    "C13": plan_C13,
    "C14": plan_C14,
    "C15": plan_C15,
    "C16": plan_C16,
    "C17": plan_C17,
    "C18": plan_C18,
    "C19": plan_C19,
    "C20": plan_C20,
}


THREADS_CFG = """SPECIFICATION Spec
INVARIANT AllConsumed
POSTCONDITION Accepted
CHECK_DEADLOCK FALSE
"""

SHARED_ARGS_CFG = """SPECIFICATION SSpec
CONSTANTS
  Threads = %(threads)s
  Arg0 <- %(arg0)s
  RelabelInPlace = %(defect)s
%(props)s
CHECK_DEADLOCK FALSE
"""

MC_THREADS_CFG = """SPECIFICATION TSpec
CONSTANTS
  Threads = {%(threads)s}
  MaxReads = %(reads)d
  LimitSigmaWriteBack = %(defect)s
  Constructed <- %(cons)s
%(props)s
CHECK_DEADLOCK FALSE
"""


def validate_thread_log(run, log, stage):
    """Validate the totally ordered thread events against Threads.tla (TraceThreads.tla), sharded by execution."""
    from concurrent.futures import ThreadPoolExecutor

    execs = []
    for e in log:
        if e["ev"] == "reset":
            execs.append([])
        execs[-1].append(e)
    nsh = max(1, min(tlc.NCPU, len(execs)))
    shards = [execs[i::nsh] for i in range(nsh)]
    jobs = []
    for si, sh in enumerate(shards):
        path = os.path.join(run.wd, "threads%03d.ndjson" % si)
        evs = [e for x in sh for e in x]
        with open(path, "w") as f:
            for e in evs:
                f.write(json.dumps(e, separators=(",", ":")) + "\n")
        jobs.append((si, path, evs))

    def one(job):
        si, path, evs = job
        rc, out = tlc.run_tlc("TraceThreads", THREADS_CFG, run.wd, env={"TRACE_FILE": path}, workers=1, heap="1500m")
        return si, evs, rc, out

    nev = 0
    with ThreadPoolExecutor(max_workers=tlc.NCPU) as ex:
        for si, evs, rc, out in ex.map(one, jobs):
            err = tlc.tlc_error(out)
            if rc != 0 or err:
                raise MachineryError("TLC failed on thread shard %d: %s" % (si, err or out[-1500:]))
            gen, dist = tlc.tlc_stats(out)
            run.states += dist
            run.transitions += gen
            by_line = {v[1]: v for v in tlc.printed_values(out, "TV")}
            for k, e in enumerate(evs):
                if e["ev"] == "reset":
                    continue
                v = by_line.get(k + 1)
                if v is None:
                    raise MachineryError("thread shard %d: no verdict for line %d" % (si, k + 1))
                nev += 1
                fails = sorted(v[3])
                if any(f.startswith("bind.") for f in fails):
                    raise MachineryError("ill-formed thread trace: %s on %s" % (fails, e))
                mine = [f for f in fails if f.startswith(run.prop + ".")]
                if mine:
                    x = e["x"]
                    trace = [t for t in log if t["x"] == x]
                    run.violations.append(({"op": "thread-event", "tid": x, "event": e}, mine, trace))
    run.traces += len(execs)
    run.evaluations += nev
    run.class_counts.update({"thread_executions": len(execs), "thread_events": nev,
                             "thread_reads": sum(1 for e in log if e["ev"] == "read")})
    run.stage_info.append({"stage": stage, "thread_executions": len(execs), "thread_events": nev})


def threads_stage(run, count, exhaustive_pairs=None):
    import sched
    # design level: every interleaving of 2-3 callers' threads on the shared model
    for threads, reads in q(run, [("1, 2", 3), ("1, 2, 3", 2)], [("1, 2", 5), ("1, 2, 3", 3)]):
        for cons in ("MCConstructed", "MCConstructedT"):
            cfg = MC_THREADS_CFG % dict(threads=threads, reads=reads, defect="FALSE", cons=cons,
                                        props="INVARIANT ResultIsSequential\nPROPERTY ModelReadOnly")
            mc.run_mc(run, "MC_Threads", cfg, "threads-%s-%d-%s" % (threads.replace(", ", ""), reads, cons), emit=False)
    # ... and on one shared outcome list object (SharedArgs.tla): no action writes it; every call returns what it returns alone
    for arg0 in ("MCArg0", "MCArg1"):
        for threads in q(run, ["{1, 2}"], ["{1, 2}", "{1, 2, 3}"]):
            mc.run_mc(run, "MC_SharedArgs", SHARED_ARGS_CFG % dict(threads=threads, arg0=arg0, defect="FALSE",
                                                                   props="PROPERTY ArgsReadOnly\nINVARIANT ResultIsSequential\nINVARIANT AloneIsFine"),
                      "shared-args-%s-%d" % (arg0, threads.count(",") + 1), emit=False)
    # code level: real threads on a shared instrumented model under chosen schedules
    sess = Session()
    log = []
    drivers.thread_executions(sess, run.sub_rng("threads"), count, log, exhaustive_pairs=exhaustive_pairs)
    if not exhaustive_pairs:
        # pre-emption at every library function call (not only model accesses): every switch point of one call
        drivers.thread_executions_fine(sess, run.sub_rng("threads-fine"), q(run, 4, 16), log, stride=1)
    validate_thread_log(run, log, "thread-events")
    validate_events(run, sched.regroup(sess.events), {"C14"}, "thread-results")
    run.samples.append({"thread_events_of_one_execution": [(e["th"], e["ev"], e["attr"], e["value"]) for e in log[:60]]})
