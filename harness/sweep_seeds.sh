#!/bin/bash
# Soundness sweep: every quick check under several seeds on the unchanged tree; any non-zero exit is a false alarm or a machinery failure.
cd "$(dirname "$(readlink -f "$0")")/.."
for s in "$@"; do
  for p in C01 C02 C03 C04 C05 C06 C07 C08 C09 C10 C11 C12 C13 C14 C15 C16 C17 C18 C19 C20; do
    out=$(VERIF_SEED=$s VERIF_EVIDENCE_DIR=$PWD/work/sweep-evidence ./check $p --tier quick 2>&1); rc=$?
    echo "seed=$s $p rc=$rc $(echo "$out" | tail -1 | cut -c1-200)"
    if [ $rc -ne 0 ]; then echo "$out" | grep -v "^Loading\|^Semantic\|^Linting\|^Parsing" | head -20; fi
  done
done
