#!/bin/bash
# Run every check of one tier in sequence: harness/run_all.sh quick|thorough [ids...]
cd "$(dirname "$(readlink -f "$0")")/.."
tier=${1:-quick}; shift
ids=${@:-C01 C02 C03 C04 C05 C06 C07 C08 C09 C10 C11 C12 C13 C14 C15 C16 C17 C18 C19 C20}
for p in $ids; do
  s=$(date +%s)
  out=$(./check $p --tier $tier 2>&1); rc=$?
  echo "$p rc=$rc wall=$(( $(date +%s) - s ))s $(echo "$out" | grep -v KNOWN-FINDING | tail -1 | cut -c1-180)"
  if [ $rc -ne 0 ]; then echo "$out" | grep -v "^Loading\|^Semantic\|^Linting\|^Parsing" | head -30; fi
done
