"""./check selftest - shows that the binding binds and that the invariants are not vacuous.

 1. negative controls: with a repaired defect switched back on in the *specification* (named constants),
    TLC must report the corresponding invariant;
 2. corruption: one recorded field of an accepted trace is changed (a digit of a sigma, an id, an exception
    class, a dropped event, a model attribute, an inserted write) and the trace must be rejected with the right clause.
Exit 0 iff every control is detected."""
import copy
import json
import random
import sys

import drivers
import mc
import plans
import tlc
from check import Run
from record import Session
from tlc import MachineryError


def negative_controls(run, report):
    r = mc.outcome(run, 3, defect="TRUE", expect_violation=True)
    report("Outcome: FloatRankUsesIndex=TRUE violates PipelineIsRule", any("PipelineIsRule" in v for v in r["violated"]))
    r = mc.apalache_outcome(run, [3], negative=True)
    if r is not None:
        report("OutcomeInt (Apalache): IndexForValue=TRUE violates Inv", r == [True])
    r = mc.apalache_outcome(run, [3], negative=True, inv="SortEquivariantUnconditional")
    if r is not None:
        report("OutcomeInt (Apalache): re-listing without C04's proviso on tied teams is refuted", r == [True])
    r = mc.apalache_outcome(run, [3], negative=True, inv="ComplementRankCollapses")
    if r is not None:
        report("OutcomeInt (Apalache): a coarsened value (as 1 - p is) does not keep strict order: refuted", r == [True])
    for prop in ("PROPERTY ModelReadOnly", "INVARIANT ResultIsSequential"):
        cfg = plans.MC_THREADS_CFG % dict(threads="1, 2", reads=3, defect="TRUE", cons="MCConstructed", props=prop)
        r = mc.run_mc(run, "MC_Threads", cfg, "neg-threads", emit=False, expect_violation=True)
        report("Threads: LimitSigmaWriteBack=TRUE violates " + prop.split()[1], bool(r["violated"]) or "violated" in r["out"])
    # a shared outcome list rewritten in place to its dense ranks (sequentially invisible): another caller reads it half-rewritten
    cfg = plans.SHARED_ARGS_CFG % dict(threads="{1, 2}", arg0="MCArg0", defect="TRUE", props="INVARIANT ResultIsSequential")
    r = mc.run_mc(run, "MC_SharedArgs", cfg, "neg-shared-args", emit=False, expect_violation=True)
    report("SharedArgs: RelabelInPlace=TRUE violates ResultIsSequential", any("ResultIsSequential" in v for v in r["violated"]))
    cfg = plans.SHARED_ARGS_CFG % dict(threads="{1, 2}", arg0="MCArg0", defect="TRUE", props="INVARIANT AloneIsFine")
    r = mc.run_mc(run, "MC_SharedArgs", cfg, "neg-shared-args-alone", emit=False, expect_violation=True)
    report("SharedArgs: RelabelInPlace=TRUE is invisible to a caller that runs alone (AloneIsFine holds)", not r["violated"] and "No error has been found" in r["out"])
    inv = "INVARIANT Inv_C14\nINVARIANT Inv_C15\nINVARIANT Inv_ModelsAsConfigured"
    for defect, setting, name in (("LimitSigmaWriteBack", "limit_call", "Inv_C14"), ("LimitSigmaWriteBack", "limit_call", "Inv_ModelsAsConfigured"),
                                  ("TauZeroFallsBack", "tau0_call", "Inv_C15")):
        d = dict(mc.DEFECTS)
        d[defect] = "TRUE"
        cfg = mc.LATTICE_CFG % dict(d, kinds=mc.qset(["BTF"]), settings=mc.qset([setting]), style="dense", cast=3, maxteams=2, invariants="INVARIANT " + name)
        r = mc.run_mc(run, "MC_Lattice", cfg, "neg-" + defect + "-" + name, emit=False, expect_violation=True)
        report("OpenSkill: %s=TRUE violates %s" % (defect, name), any(name in v for v in r["violated"]) or name in r["out"])
    # and with the constants FALSE the same instances hold
    cfg = mc.LATTICE_CFG % dict(mc.DEFECTS, kinds=mc.qset(["BTF"]), settings=mc.qset(["limit_call", "tau0_call"]), style="dense", cast=3, maxteams=2, invariants=inv)
    r = mc.run_mc(run, "MC_Lattice", cfg, "pos-controls", emit=False, expect_violation=True)
    report("OpenSkill: Inv_C14, Inv_C15, Inv_ModelsAsConfigured hold with the constants FALSE", not r["violated"] and "No error has been found" in r["out"])


def corruptions(run, report, seed):
    rng = random.Random(seed)
    sess = Session()
    drivers.rate_campaign(sess, rng, 12, simple=True)
    drivers.malformed_campaign(sess, rng, 1, kinds=["PL"], ops=("rate",))
    drivers.league(sess, rng, "BTF", 6, 6, predictions=False)
    base = sess.events
    want = {"C01", "C02", "C06", "C13", "C14"}

    def verdicts(events):
        res = tlc.validate(events, want, run.wd)
        return [f for (_e, fails, _c) in res["results"] for f in fails]

    report("accepted trace has no failing clause", verdicts(base) == [])

    def first(pred):
        for i, e in enumerate(base):
            if pred(e):
                return i
        raise MachineryError("selftest: no event to corrupt")

    i = first(lambda e: e["op"] == "rate" and e["out"]["kind"] == "ok")
    ev = copy.deepcopy(base)
    leaf = ev[i]["out"]["value"]["items"][0]["items"][0]
    s = leaf["sigma"]
    k = max(j for j, ch in enumerate(s[:8]) if ch.isdigit())
    leaf["sigma"] = s[:k] + str((int(s[k]) + 1) % 10) + s[k + 1:]
    report("a digit of a returned sigma changed -> C01.sigma", any(f.startswith("C01.sigma") for f in verdicts(ev)))
    ev = copy.deepcopy(base)
    ev[i]["out"]["value"]["items"][0]["items"][0]["uid"] = "0" * 32
    report("an id in the result changed -> C02.identity", any(f.startswith("C02.identity") for f in verdicts(ev)))
    ev = copy.deepcopy(base)
    a, b = ev[i]["out"]["value"]["items"][0], ev[i]["out"]["value"]["items"][1]
    ev[i]["out"]["value"]["items"][0], ev[i]["out"]["value"]["items"][1] = b, a
    fs = verdicts(ev)
    report("two teams of a result exchanged -> C02", any(f.startswith("C02.") for f in fs))
    j = first(lambda e: e["op"] == "rate" and e["out"]["kind"] == "raise")
    ev = copy.deepcopy(base)
    ev[j]["out"]["exc"] = "AttributeError"
    report("exception class changed -> C13.exception_class", any(f.startswith("C13.exception_class") for f in verdicts(ev)))
    ev = copy.deepcopy(base)
    ev[j]["out"] = {"kind": "ok", "exc": "", "value": ev[j]["teams"]}
    report("a rejected call reported as accepted -> C13.malformed_accepted", "C13.malformed_accepted" in verdicts(ev))
    ev = copy.deepcopy(base)
    ev[i]["model_after"]["limit"] = "T" if ev[i]["model_after"]["limit"] == "F" else "F"
    report("a model attribute changed by a call -> C14.model_modified", "C14.model_modified" in verdicts(ev))
    lg = [k for k, e in enumerate(base) if e["op"] == "rate" and e["model"]["kind"] == "BTF" and e["tid"] == base[-1]["tid"]]
    def refs_of(e):
        return {p["ref"] for t in e["teams"]["items"] for p in t["items"]}

    # a game with a player who has played before and plays again later (dropping any other one cannot be noticed:
    # an object seen for the first time may hold any values)
    drop = next(k for i_, k in enumerate(lg) if 0 < i_ < len(lg) - 1 and
                any(refs_of(base[k]) & refs_of(base[k1]) & refs_of(base[k2]) for k1 in lg[:i_] for k2 in lg[i_ + 1:]))
    ev = copy.deepcopy(base)
    del ev[drop]
    report("an event of a league dropped -> bind.heap (ill-formed trace)", any(f.startswith("bind.heap") for f in verdicts(ev)))
    # the inside of a call (Stages.tla): observed helper values
    s3 = Session()
    s3.stages_on = True
    drivers.rate_campaign(s3, random.Random(seed + 1), 40, simple=True)
    sb = s3.events

    def sverdicts(events):
        res = tlc.validate(events, {"S"}, run.wd)
        return [f for (_e, fails, _c) in res["results"] for f in fails]

    report("accepted stage records have no failing clause", sverdicts(sb) == [])

    def stage_at(name, ok=lambda st: True):
        for i, e in enumerate(sb):
            for k, st in enumerate(e.get("stages", [])):
                if st["name"] == name and ok(st) and e["out"]["kind"] == "ok":
                    return i, k
        raise MachineryError("selftest: no stage %s" % name)

    i, k = stage_at("sort", lambda st: len(set(st["ints"])) > 1)
    ev = copy.deepcopy(sb)
    ev[i]["stages"][k]["ints"][0], ev[i]["stages"][k]["ints"][1] = ev[i]["stages"][k]["ints"][1], ev[i]["stages"][k]["ints"][0]
    report("two positions of the observed sort exchanged -> S.sort.order", "S.sort.order" in sverdicts(ev))
    i, k = stage_at("agg")
    ev = copy.deepcopy(sb)
    ev[i]["stages"][k]["nums2"][0] = repr(float(ev[i]["stages"][k]["nums2"][0]) * 1.0001)
    report("an observed team variance changed by 1e-4 -> S.agg.sigma_squared", "S.agg.sigma_squared" in sverdicts(ev))
    i, k = stage_at("ladder")
    ev = copy.deepcopy(sb)
    ev[i]["stages"][k]["lists"][0] = []
    report("an observed ladder neighbour dropped -> S.ladder.neighbours", "S.ladder.neighbours" in sverdicts(ev))
    i, k = stage_at("gamma")
    ev = copy.deepcopy(sb)
    ev[i]["stages"][k]["ints"][2] += 1
    report("the rank handed to the gamma callback changed -> S.gamma.rank", "S.gamma.rank" in sverdicts(ev))
    # the inside of a prediction (Stages!PredictStageFails)
    s6 = Session()
    s6.stages_on = True
    drivers.predict_campaign(s6, random.Random(seed + 4), 12)
    pb = s6.events
    report("accepted prediction stage records have no failing clause", sverdicts(pb) == [])

    def pstage_at(name, op=None):
        for i, e in enumerate(pb):
            if e["op"] in ("win", "draw", "rank") and (op is None or e["op"] == op) and e["out"]["kind"] == "ok":
                for k, st in enumerate(e.get("stages", [])):
                    if st["name"] == name:
                        return i, k
        raise MachineryError("selftest: no prediction stage %s" % name)

    i, k = pstage_at("phi", "win")
    ev = copy.deepcopy(pb)
    ev[i]["stages"][k]["nums"][0] = repr(float(ev[i]["stages"][k]["nums"][0]) * 1.001 + 1e-3)
    report("an observed argument of the CDF changed -> S.phi.argument_not_of_the_rule", "S.phi.argument_not_of_the_rule" in sverdicts(ev))
    ev = copy.deepcopy(pb)
    ev[i]["stages"][k]["nums"] = ev[i]["stages"][k]["nums"][:-1]
    ev[i]["stages"][k]["nums2"] = ev[i]["stages"][k]["nums2"][:-1]
    report("one pair not evaluated -> S.phi.count", "S.phi.count" in sverdicts(ev))
    i, k = pstage_at("rank_in", "rank")
    ev = copy.deepcopy(pb)
    ev[i]["stages"][k]["ints"][0] += 1
    report("an observed rank of the ranked vector changed -> S.rank_in.not_competition_ranking", "S.rank_in.not_competition_ranking" in sverdicts(ev))
    # model construction (Sem!Construct): what the object holds against what was asked for
    s4 = Session()
    drivers.construct_campaign(s4, random.Random(seed + 2), 25)
    cb = s4.events

    def cverdicts(events, want):
        res = tlc.validate(events, want, run.wd)
        return [f for (_e, fails, _c) in res["results"] for f in fails]

    report("accepted constructions have no failing clause", cverdicts(cb, {"C01", "C15", "C20"}) == [])
    i = next(k for k, e in enumerate(cb) if e["op"] == "new_model" and e["args"]["kappa"]["t"] != "none")
    ev = copy.deepcopy(cb)
    ev[i]["model"]["kappa"] = repr(float(ev[i]["model"]["kappa"]) * 2)
    report("a constructed model holding another kappa than asked for -> C01.model_not_as_constructed:kappa",
           "C01.model_not_as_constructed:kappa" in cverdicts(ev, {"C01"}))
    i = next(k for k, e in enumerate(cb) if e["op"] == "new_model" and e["args"]["tau"]["t"] == "none")
    ev = copy.deepcopy(cb)
    ev[i]["model"]["tau"] = "0.0833"
    report("a default tau that is not 25/300 -> C15.model_not_as_constructed:tau", "C15.model_not_as_constructed:tau" in cverdicts(ev, {"C15"}))
    # the rest of the surface (Extras.tla)
    import extras
    s5 = Session()
    extras.extras_campaign(s5, random.Random(seed + 3))
    xb = s5.events

    def xverdicts(events):
        res = tlc.validate(events, {"X"}, run.wd)
        return [f for (_e, fails, _c) in res["results"] for f in fails]

    report("accepted extra observations have no failing clause", xverdicts(xb) == [])
    for what, change, clause in [
            ("rank_data", lambda o: o["items"][0].__setitem__("v", str(int(o["items"][0]["v"]) + 1)), "X.rank_data"),
            ("arg_sort", lambda o: o["items"].reverse(), "X.arg_sort"),
            ("str_rating", lambda o: o.__setitem__("v", o["v"].replace("mu:", "mean:")), "X.str_rating"),
            ("phi_major_inverse", lambda o: o.__setitem__("v", repr(float(o["v"]) + 1e-9)), "X.phi_major_inverse"),
            ("unwind", lambda o: o["items"][1]["items"].reverse(), "X.unwind")]:
        i = next(k for k, e in enumerate(xb) if e["op"] == "extra" and e["what"] == what and e["out"]["kind"] == "ok"
                 and (what not in ("arg_sort", "unwind", "rank_data") or len({x["v"] for x in e["a"]["items"]}) > 1)
                 and (what != "phi_major_inverse" or 0.2 < float(e["a"]["v"]) < 0.8))
        ev = copy.deepcopy(xb)
        change(ev[i]["out"]["value"])
        report("an observed %s result changed -> %s" % (what, clause), clause in xverdicts(ev))
    # threads: an inserted write
    import sched
    s2 = Session()
    log = []
    drivers.thread_executions(s2, rng, 2, log, kinds=["PL"])
    r2 = Run("C14", "quick", seed)
    r2.wd = run.wd
    plans.validate_thread_log(r2, log, "selftest")
    report("accepted thread trace", r2.violations == [])
    k = next(i for i, e in enumerate(log) if e["ev"] == "read")
    log2 = log[:k] + [dict(log[k], ev="write", attr="limit", value="T")] + log[k:]
    r3 = Run("C14", "quick", seed)
    r3.wd = run.wd
    plans.validate_thread_log(r3, log2, "selftest")
    report("an inserted write to the shared model -> C14.thread_write_to_model", any("thread_write_to_model" in f for (_e, fs_, _t) in r3.violations for f in fs_))
    log4 = log[:k] + [dict(log[k], ev="argwrite", attr="outcome_list", value="__setitem__")] + log[k:]
    r5 = Run("C14", "quick", seed)
    r5.wd = run.wd
    plans.validate_thread_log(r5, log4, "selftest")
    report("an inserted write to the shared outcome list -> C14.thread_write_to_shared_argument",
           any("thread_write_to_shared_argument" in f for (_e, fs_, _t) in r5.violations for f in fs_))
    log3 = copy.deepcopy(log)
    log3[k]["value"] = "12345.0"
    r4 = Run("C14", "quick", seed)
    r4.wd = run.wd
    plans.validate_thread_log(r4, log3, "selftest")
    report("a read returning another value -> C14.thread_read_not_constructed_value", any("thread_read_not_constructed_value" in f for (_e, fs_, _t) in r4.violations for f in fs_))


def main(tier, seed):
    run = Run("selftest", tier, seed)
    results = []

    def report(name, ok):
        results.append((name, ok))
        print("%s  %s" % ("detected " if ok else "MISSED   ", name), flush=True)

    try:
        tlc.ensure_built()
        negative_controls(run, report)
        corruptions(run, report, seed)
    except MachineryError as ex:
        print("MACHINERY-FAILURE selftest: %s" % str(ex)[:3000])
        return 2
    bad = [n for n, ok in results if not ok]
    print("selftest: %d controls, %d missed" % (len(results), len(bad)))
    import shutil
    shutil.rmtree(run.wd, ignore_errors=True)
    return 0 if not bad else 2


if __name__ == "__main__":
    sys.exit(main("quick", 1))
