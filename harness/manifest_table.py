# Table of claimed checks (read by gen_manifest.py).
TV = "TLA+ specification checked by TLC; trace validation of executions recorded from the library against the specification (Trace.tla)"
HP = "; 40-digit real arithmetic inside TLC (module override HPReal)"
GR = "; relational formula over groups of sibling calls, sibling-hood decided by the specification"

check("C01", "Every recorded rate() call is accepted by the trace specification only if each returned (mu, sigma) lies within a "
      "first-order double-precision budget of the 40-digit TLA+ transcription of the model's published update rule. The "
      "continuous domain is sampled (boundary-biased); the discrete structure (ties, shapes, encodings, options, floor/clamp regimes) is class-counted and a missing class fails the run.",
      TV + HP)
check("C02", "Every recorded rate() result is checked slot by slot against the input projection: shape, id, name, class, the slot's own "
      "posterior (a posterior that matches another slot is reported as moved), and the passed objects all-updated or all-untouched.", TV + HP)
check("C03", "Each game is rated under 8 differently written outcome arguments that the specification (Outcome!SameOrder) proves "
      "order-equivalent; TLC demands bit-identical results. Encodings include float/int mixes, bools, -0.0, 1e15 and 2^53 neighbours, scores, omitted ranks.", TV + GR)
check("C04", "For each game all n! team orders (n <= 4 quick, 5 thorough; sampled above) with member permutations are rated; TLC verifies "
      "that the sibling really is the permuted game and compares every player's posterior within twice the budget; partial pairing "
      "only for permutations that keep tied teams in order.", TV + GR + HP)
check("C05", "Single-game direction clauses on every recorded rate() call, plus groups: two-team games under win/draw/loss (ordering, prior "
      "between, draw direction with the TM allowance) and place exchanges in games without ties.", TV + GR + HP)
check("C06", "Sigma bounds evaluated by TLC on every recorded rate() call over tau/limit_sigma at model and call level, kappa and gamma configurations.", TV + HP)
check("C07", "Precision-weighted zero sum of the observed mu changes evaluated by TLC per game with the budget of the posteriors and the TM tie allowance.", TV + HP)
check("C08", "Random boundary-biased games on the whole numeric domain (up to 16 players per team, beta over six orders of magnitude): TLC "
      "requires a normal return with finite numbers from the four operations.", TV)
check("C09", "predict_win: distribution clauses per call; permuted presentations; mu increments from 1 ulp to 10 beta; exact one half for two identical teams.", TV + GR)
check("C10", "predict_draw: range per call; order independence; two-team widening gaps; equalised totals.", TV + GR)
check("C11", "predict_rank: rank/probability consistency on the returned floats incl. identical teams; rank + draw = 1 for n >= 3.", TV + GR)
check("C12", "All three predictions within 1e-9 absolute of the 40-digit closed forms of Predict.tla.", TV + HP)
check("C13", "A grammar of substituted values at every position of otherwise valid calls; the specification's WFRateCall/WFTeams (read from "
      "the property's sentence) classifies each call; TLC requires TypeError/ValueError, no modified rating or model attribute on "
      "rejection, and acceptance of every well-formed in-domain call.", TV)
check("C14", "Model attributes projected before/after every call; the same call after different histories on a shared model, with other ids, "
      "names and objects, must be bit-identical.", TV + GR)
check("C15", "Model-level against per-call tau / limit_sigma (each alone, both, explicit None), t including 0 and 0.0: TLC verifies the effective options coincide and demands bit-identical results.", TV + GR)
check("C16", "Rescaled (incl. powers of two) and shifted games: TLC verifies the sibling is the scaled/shifted game and compares rate (PL, BT) within twice the budget and all predictions within 1e-12.", TV + GR + HP)
check("C18", "Comparisons, ordinal and sorted() on pairs with many equal ordinals and random floats, foreign operands of every kind, judged by Rel.tla.", TV)
check("C19", "The same call on all five classes (TLC verifies the calls correspond): identical predictions, acceptance and exception class, "
      "BT part = BT full on two teams, identical operation tables/signatures and hashes.", TV + GR)
check("C20", "Constructors, deepcopy and twin leagues (live objects vs players rebuilt from stored (mu, sigma) before every game) judged by Rel.tla; bit-identical results.", TV + GR)
check("C17", "v, w, vt, wt and the CDF are called on a dense sweep of [-40, 40] x log-spaced t, random points, +-64 ulp around every branch "
      "threshold (located by bisection on the implementation's observable branch switch) and huge |x|; TLC judges each recorded call "
      "against the exact V, W, V~, W~, Phi of Kernels.tla at 40 digits with the errors the property states.", TV + HP)
