# Table of claimed checks (read by gen_manifest.py).
MC = "TLA+ state-machine specification (OpenSkill.tla) model-checked by TLC on bounded instances; "
TV = "trace validation: executions recorded from the library are checked by TLC against the specification's operators (Trace.tla)"
RP = "; TLC-enumerated transitions replayed into the library"
HP = "; 40-digit real arithmetic inside TLC (module override HPReal)"
GR = "; relational formulas over groups of sibling calls whose sibling-hood the specification decides"

check("C01", "MC_Lattice: every game over a cast of 4-5 rating objects x every weak order x option settings, five models: TLC checks the "
      "design invariants and emits each transition, which is performed on the real classes and judged by Trace.tla - each returned "
      "(mu, sigma) must lie within a first-order double-precision budget of the 40-digit TLA+ transcription of the published rule. "
      "Plus recorded campaigns over the full numeric domain incl. its corners. The continuum is sampled; discrete structure is exhaustive "
      "on the lattice and class-counted on the campaigns (a missing class fails the run). Model construction is an operation of the state "
      "machine (NewModel / Sem!Construct): the configuration a call is judged by is the one its owner asked for. Stratified stages for the "
      "coincidences random games never hit: kappa floor under the default gamma, ordinal ties, whole-number grids.", MC + TV + RP + HP)
check("C02", "Lattice transitions (all shapes over the cast x all weak orders, and all rank/score vectors over mixed values) and recorded "
      "campaigns; every result judged slot by slot: shape, id, name, class, the slot's own posterior (another slot's posterior = moved; "
      "another slot's prior sigma = clamp paired wrongly), inputs all-updated or all-untouched.", MC + TV + RP + HP)
check("C03", "MC_Outcome: pipeline = rule for every tagged vector (TLC); OutcomeInt: the same for all integer values symbolically (Apalache, "
      "auxiliary); every rank/score vector over mixed values emitted by TLC, grouped by weak order and replayed as sibling calls; recorded "
      "groups with 8+ encodings per game (floats, bools, -0.0, 1e15, ints beyond 2^53, int/float pairs within one ulp, scores, omitted): "
      "the specification proves the siblings order-equivalent and demands bit-identical results.", MC + TV + RP + GR)
check("C04", "Inv_C04: the rule itself is equivariant on every lattice transition (reversed presentation recomputed at 1e-28). Code: all n! team "
      "orders (n <= 4 quick, 5 thorough; sampled above) with member permutations; TLC verifies the sibling is the permuted game and compares "
      "every player's posterior within twice the budget; partial pairing only for permutations keeping tied teams in order. Stratified: every "
      "exact relation among the sigmas of a team x every rotation of its members; outcome values spanning more than 2^53 in every listing.", MC + TV + GR + HP)
check("C05", "Inv_C05 on every lattice transition at 1e-30; replayed transitions and recorded campaigns judged for the single-game clauses; "
      "groups: two-team games under win/draw/loss and place exchanges in games without ties.", MC + TV + RP + GR + HP)
check("C06", "Inv_C06 on the lattice over tau/limit_sigma/kappa/gamma settings; replayed transitions, campaigns incl. domain corners, and league "
      "histories in which every step is judged from the observed pre-state (which must be the previous post-state).", MC + TV + RP + HP)
check("C07", "Inv_C07 (zero sum at 1e-30) on every lattice transition; replayed transitions and campaigns: zero sum of the observed mu changes "
      "within the accuracy of the steps (1e-9 of each step plus the kernels' stated noise) and the rounding of adding them, plus the "
      "Thurstone-Mosteller tie allowance.", MC + TV + RP + HP)
check("C08", "Corners of the numeric domain (+-20 beta, sigma 1e-4..10 beta and 0 with tau > 0, 16-player teams, beta over six orders of magnitude, "
      "kappa 1e-2..1e-8, favourite wins/loses/draws) and boundary-biased campaigns: normal return with finite numbers from the four operations.", TV)
check("C09", "predict_win: distribution clauses per call; permuted presentations (also of live, re-assigned objects); mu increments from 1 ulp to "
      "10 beta; exact one half for two identical teams; aliased lists; earlier calls of other model instances must change nothing.", TV + GR)
check("C10", "predict_draw: range per call; order independence (fresh and live objects); two-team widening gaps; equalised totals.", TV + GR)
check("C11", "OutcomeInt!Inv4 (Apalache, auxiliary): the ranking rule is in 1..n, order-consistent, 1 for a maximum, for every vector of ordered values. "
      "predict_rank: rank/probability consistency on the returned floats incl. identical teams, ordinal ties and near-ties (same roster summed in "
      "another order, totals one ulp apart); rank + draw = 1 for n >= 3.", MC + TV + GR)
check("C12", "All three predictions within 1e-9 absolute of the 40-digit closed forms of Predict.tla: random games, games after other models' calls, "
      "reconfigured live models, predictions on live re-rated objects in leagues.", TV + HP)
check("C13", "MC_Grammar: TLC substitutes 22 values at every position of teams / ranks / scores of valid calls, adds structural variants (whole-list "
      "replacements, empty lists beside given selectors, options on), four "
      "operations, five models; Inv_Grammar on the design; every transition replayed into the library and judged by WFRateCall/WFTeams "
      "(read from the property's sentence): TypeError/ValueError, no modified rating or model attribute, acceptance of every well-formed in-domain call.", MC + TV + RP)
check("C14", "MC_Threads: every interleaving of 2-3 callers' threads split at model accesses (ModelReadOnly, ResultIsSequential); MC_Seq: behaviours "
      "of the state machine replayed on live objects; real threads pre-empted at every model access and at every library function call, their "
      "event logs validated by TraceThreads.tla and their results against the sequential run; the same calls in three processes (hash seeds, "
      "polluting earlier calls); cold start: the first calls of fresh processes made concurrently, pre-empted at sampled lines; SharedArgs.tla: "
      "callers passing one outcome list (no action writes it; every mutating operation of the real list is logged); histories; model and "
      "argument projections around every call.", MC + TV + RP + GR)
check("C15", "Inv_C15 on the lattice of option settings (negative control: TauZeroFallsBack); replayed; groups: model-level against per-call tau / "
      "limit_sigma (each alone, both, explicit None, by position), t including 0 and 0.0: bit-identical results.", MC + TV + RP + GR)
check("C16", "Inv_C16: the rule is covariant under x3 scaling (PL, BT) and +7.5 shifts on every lattice transition at 1e-28. Code: rescaled (incl. "
      "powers of two) and shifted games; TLC verifies the sibling is the scaled/shifted game; rate within twice the budget, predictions within 1e-12.", MC + TV + GR + HP)
check("C17", "v, w, vt, wt and the CDF on a dense sweep of [-40, 40] x log-spaced t, random points, +-64 ulp around every branch threshold (located by "
      "bisection on the implementation's observable branch switch), huge |x|, and call patterns (+-x back to back, repeated, interleaved); TLC "
      "judges each recorded call against the exact V, W, V~, W~, Phi of Kernels.tla at 40 digits with the errors the property states (at the guard "
      "itself: within 2 per cent, whichever branch was taken).", TV + HP)
check("C18", "Compare/Ordinal actions of the state machine in MC_Seq behaviours replayed on live objects; recorded comparisons of pairs with many "
      "equal ordinals, foreign operands of every kind, ordinal(z), sorted(), and ask / edit in place / ask again sequences, judged by Rel.tla.", MC + TV + RP)
check("C19", "Inv_C19 (BT part = full on two teams) on the lattice; the same call on all five classes (TLC verifies the calls correspond): identical "
      "predictions, acceptance and exception class; identical comparisons incl. foreign operands, operation tables/signatures and hashes.", MC + TV + GR)
check("C20", "NewRating/CreateRating/DeepCopy/Assign actions in MC_Seq behaviours replayed on live objects; constructors with None/0/-0.0/negative/huge "
      "values; deepcopy of nested lists incl. a snapshot beside its live twin; twin leagues and mirror matches (live objects vs players rebuilt "
      "from stored (mu, sigma)): bit-identical results.", MC + TV + RP + GR)
