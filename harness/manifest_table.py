# Table of claimed checks (read by gen_manifest.py).
TV = "TLA+ specification + TLC: trace validation of recorded executions against the specification's operators"

check("C01", "Every recorded rate() call is accepted by the trace specification only if each returned (mu, sigma) lies within a "
      "first-order double-precision budget of the 40-digit TLA+ transcription of the model's published update rule; the "
      "continuous domain is sampled (boundary-biased), the discrete structure (ties, shapes, encodings, options) is covered by class counting.",
      TV + "; 40-digit real arithmetic in TLC via module override")
