"""Drivers: generate calls over the properties' stated domains and record them.

All randomness comes from the random.Random instance passed in (seeded from VERIF_SEED).
Names are drawn from a small safe alphabet; values stay inside the numeric domain of the
properties (DESIGN 2): |mu| <= 20 beta, sigma in [1e-4, 10] beta, kappa <= 1e-2 (and
kappa <= 1e-2*sqrt2*beta for Thurstone-Mosteller), tau in [0, beta].
"""
import math

from project import KINDS
from record import ABSENT

BETA0 = 25.0 / 6.0
NAMES = [None, "ann", "bob", "cy", "dee", "eve", "flo", "gus", "hal", "P 1", "x_y", "Zoe"]


def pick_beta(rng):
    r = rng.random()
    if r < 0.6:
        return BETA0
    return BETA0 * rng.choice([1e-3, 1e-2, 0.1, 0.5, 2.0, 10.0, 100.0, 1e3])


def pick_model_params(rng, kind, simple=False):
    """Model construction parameters within the domain."""
    p = {}
    beta = BETA0 if simple else pick_beta(rng)
    if beta != BETA0:
        p["beta"] = beta
        p["mu"] = 6.0 * beta
        p["sigma"] = 2.0 * beta
    r = rng.random()
    if r < 0.5:
        pass  # default kappa 1e-4
    else:
        kmax = 1e-2
        if kind in ("TMF", "TMP"):
            kmax = min(kmax, 1e-2 * math.sqrt(2.0) * beta)
        k = rng.choice([1e-8, 1e-6, 1e-5, 1e-3, 1e-2])
        p["kappa"] = min(k, kmax)
    if beta != BETA0 and "kappa" not in p and kind in ("TMF", "TMP"):
        p["kappa"] = min(1e-4, 1e-2 * math.sqrt(2.0) * beta)
    r = rng.random()
    if r < 0.4:
        p["tau"] = (beta / 50.0) if beta != BETA0 else None
        if p["tau"] is None:
            del p["tau"]
    elif r < 0.6:
        p["tau"] = 0.0
    elif r < 0.8:
        p["tau"] = beta * rng.choice([1e-6, 1e-3, 0.1, 1.0])
    else:
        p["tau"] = beta * rng.random()
    if rng.random() < 0.25:
        p["limit_sigma"] = True
    g = "default"
    r = rng.random()
    if not simple and r < 0.4:
        g = rng.choice(["one", "zero", "big", "probe"])
    return p, g, beta


def pick_mu(rng, beta):
    r = rng.random()
    if r < 0.55:
        return rng.gauss(6.0 * beta, 2.0 * beta) if rng.random() < 0.7 else rng.uniform(-20 * beta, 20 * beta)
    if r < 0.65:
        return rng.choice([-20.0, 20.0, 0.0, -0.0]) * beta
    if r < 0.75:
        return float(rng.randint(-20, 20)) * beta
    return rng.uniform(-20 * beta, 20 * beta)


def pick_sigma(rng, beta, tau_pos=False):
    r = rng.random()
    if r < 0.5:
        return rng.uniform(0.2, 2.5) * beta
    if r < 0.6:
        return rng.choice([1e-4, 10.0]) * beta
    if r < 0.62 and tau_pos:
        return 0.0
    lo, hi = math.log(1e-4), math.log(10.0)
    s = math.exp(rng.uniform(lo, hi)) * beta
    return min(max(s, 1e-4 * beta), 10.0 * beta)


def pick_shape(rng, max_teams=8, max_players=8):
    r = rng.random()
    if r < 0.35:
        n = 2
    elif r < 0.6:
        n = 3
    else:
        n = rng.randint(2, max_teams)
    if rng.random() < 0.3:
        return [1] * n
    r = rng.random()
    top = max_players if r < 0.2 else min(3, max_players)
    return [rng.randint(1, top) for _ in range(n)]


def weak_order(rng, n):
    """A random weak order on n teams as a list of small non-negative ints (dense classes, shuffled)."""
    r = rng.random()
    if r < 0.35:
        k = n  # no ties
    elif r < 0.45:
        k = 1  # all tied
    else:
        k = rng.randint(1, n)
    cls = list(range(k)) + [rng.randrange(k) for _ in range(n - k)]
    rng.shuffle(cls)
    return cls


def encode_order(rng, cls):
    """Encode dense classes as a ranks vector or a scores vector in one of many value styles.

    Returns (kwargs for rate, style).  Strictly increasing maps only, so the weak order is cls's."""
    n = len(cls)
    k = max(cls) + 1
    style = rng.choice(["none?", "int", "int", "float", "mixed", "neg", "big", "bool?", "scores", "scores_f", "scores_neg", "frac"])
    if style == "none?":
        if cls == list(range(n)):
            return {}, "none"
        style = "int"
    if style == "bool?":
        if k <= 2:
            return {"ranks": [bool(c) for c in cls]}, "bool"
        style = "mixed"
    # a strictly increasing sequence of k values
    if style == "int":
        base = sorted(rng.sample(range(0, 3 * k + 2), k))
        vals = [int(v) for v in base]
    elif style == "float":
        base = sorted(rng.sample(range(0, 3 * k + 2), k))
        vals = [float(v) for v in base]
    elif style == "mixed":
        base = sorted(rng.sample(range(-k, 2 * k + 2), k))
        vals = [float(v) if rng.random() < 0.5 else int(v) for v in base]
    elif style == "neg":
        base = sorted(rng.sample(range(-5 * k - 5, 0), k))
        vals = [int(v) if rng.random() < 0.7 else float(v) for v in base]
    elif style == "big":
        base = sorted(rng.sample(range(1, 5 * k + 5), k))
        vals = [v * 1e15 if rng.random() < 0.5 else v * 10**9 for v in base]
        vals = sorted(vals)
        if len(set(vals)) < k:
            vals = [float(v) * 1e15 for v in base]
    elif style == "frac":
        base = sorted(rng.sample(range(0, 40), k))
        vals = [v / 8.0 - 1.5 for v in base]
    else:  # scores: larger is better, so map class c to a decreasing value
        base = sorted(rng.sample(range(-2 * k - 2, 4 * k + 4), k), reverse=True)
        if style == "scores":
            vals = [int(v) for v in base]
        elif style == "scores_f":
            vals = [v + 0.5 for v in base]
        else:
            vals = [float(v) - 100.0 if rng.random() < 0.5 else int(v) - 100 for v in base]
        return {"scores": [vals[c] for c in cls]}, style
    return {"ranks": [vals[c] for c in cls]}, style


def build_teams(rng, mh, shape, beta, tau_pos, named=True, session=None):
    teams = []
    for size in shape:
        team = []
        for _ in range(size):
            mu = pick_mu(rng, beta)
            sg = pick_sigma(rng, beta, tau_pos)
            nm = rng.choice(NAMES) if named else None
            team.append(mh.m.rating(mu, sg, nm) if nm is not None else mh.m.rating(mu, sg))
        teams.append(team)
    return teams


def rate_campaign(sess, rng, count, kinds=KINDS, max_teams=8, max_players=8, simple=False):
    """count independent random rate calls, one trace each."""
    for _ in range(count):
        kind = rng.choice(kinds)
        params, g, beta = pick_model_params(rng, kind, simple)
        sess.reset()
        mh = sess.model(kind, gamma=g, **params)
        kw = {}
        if rng.random() < 0.25:
            kw["tau"] = rng.choice([0, 0.0, beta * 1e-6, beta / 50.0, beta * rng.random(), beta])
        if rng.random() < 0.25:
            kw["limit_sigma"] = rng.random() < 0.6
        eff_tau = kw.get("tau", mh.m.tau)
        shape = pick_shape(rng, max_teams, max_players)
        teams = build_teams(rng, mh, shape, beta, eff_tau > 0)
        okw, _style = encode_order(rng, weak_order(rng, len(shape)))
        kw.update(okw)
        sess.rate(mh, teams, **kw)


def predict_campaign(sess, rng, count, kinds=KINDS, max_teams=8, max_players=8):
    """count independent random games, all three predictions on each."""
    for _ in range(count):
        kind = rng.choice(kinds)
        params, g, beta = pick_model_params(rng, kind)
        sess.reset()
        mh = sess.model(kind, gamma=g, **params)
        shape = pick_shape(rng, max_teams, max_players)
        if rng.random() < 0.1:
            shape = [rng.choice([8, 16])] * rng.randint(2, 4)
        teams = build_teams(rng, mh, shape, beta, False)
        if rng.random() < 0.2:  # identical teams: probability ties
            k = rng.randrange(len(teams))
            for i in range(len(teams)):
                if i != k and rng.random() < 0.6:
                    teams[i] = [mh.m.rating(p.mu, p.sigma) for p in teams[k]]
        for op in ("win", "draw", "rank"):
            sess.predict(op, mh, teams)
