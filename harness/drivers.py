"""Drivers: generate calls over the properties' stated domains and record them.

All randomness comes from the random.Random instance passed in (seeded from VERIF_SEED).
Names are drawn from a small safe alphabet; values stay inside the numeric domain of the
properties (DESIGN 2): |mu| <= 20 beta, sigma in [1e-4, 10] beta, kappa <= 1e-2 (and
kappa <= 1e-2*sqrt2*beta for Thurstone-Mosteller), tau in [0, beta].
"""
import math

from project import KINDS
from record import ABSENT

BETA0 = 25.0 / 6.0
NAMES = [None, "ann", "bob", "cy", "dee", "eve", "flo", "gus", "hal", "P 1", "x_y", "Zoe"]


def pick_beta(rng):
    r = rng.random()
    if r < 0.6:
        return BETA0
    return BETA0 * rng.choice([1e-3, 1e-2, 0.1, 0.5, 2.0, 10.0, 100.0, 1e3])


def pick_model_params(rng, kind, simple=False):
    """Model construction parameters within the domain."""
    p = {}
    beta = BETA0 if simple else pick_beta(rng)
    if beta != BETA0:
        p["beta"] = beta
        p["mu"] = 6.0 * beta
        p["sigma"] = 2.0 * beta
    r = rng.random()
    if r < 0.5:
        pass  # default kappa 1e-4
    else:
        kmax = 1e-2
        if kind in ("TMF", "TMP"):
            kmax = min(kmax, 1e-2 * math.sqrt(2.0) * beta)
        k = rng.choice([1e-8, 1e-6, 1e-5, 1e-3, 1e-2])
        p["kappa"] = min(k, kmax)
    if beta != BETA0 and "kappa" not in p and kind in ("TMF", "TMP"):
        p["kappa"] = min(1e-4, 1e-2 * math.sqrt(2.0) * beta)
    r = rng.random()
    if r < 0.4:
        p["tau"] = (beta / 50.0) if beta != BETA0 else None
        if p["tau"] is None:
            del p["tau"]
    elif r < 0.6:
        p["tau"] = 0.0
    elif r < 0.8:
        # incl. values so small that adding tau^2 is a no-op in doubles for the larger sigmas of a game and not for the smaller
        p["tau"] = beta * rng.choice([1e-6, 1e-3, 0.1, 1.0, 1e-9, 2.4e-9, 1e-8, 1e-7])
    else:
        p["tau"] = beta * rng.random()
    if rng.random() < 0.25:
        p["limit_sigma"] = True
    if rng.random() < 0.35:
        # the model's default mu / sigma are only defaults for new ratings: vary them independently of beta
        p["sigma"] = beta * rng.choice([0.01, 0.1, 0.5, 1.0, 3.0, 10.0])
        p["mu"] = beta * rng.choice([-5.0, 0.0, 1.0, 6.0, 20.0])
    g = "default"
    r = rng.random()
    if not simple and r < 0.4:
        g = rng.choice(["one", "zero", "big", "probe"])
    return p, g, beta


def pick_mu(rng, beta):
    r = rng.random()
    if r < 0.55:
        return rng.gauss(6.0 * beta, 2.0 * beta) if rng.random() < 0.7 else rng.uniform(-20 * beta, 20 * beta)
    if r < 0.65:
        return rng.choice([-20.0, 20.0, 0.0, -0.0]) * beta
    if r < 0.75:
        return float(rng.randint(-20, 20)) * beta
    return rng.uniform(-20 * beta, 20 * beta)


def pick_sigma(rng, beta, tau_pos=False):
    r = rng.random()
    if r < 0.5:
        return rng.uniform(0.2, 2.5) * beta
    if r < 0.6:
        return rng.choice([1e-4, 10.0]) * beta
    if r < 0.62 and tau_pos:
        return 0.0
    lo, hi = math.log(1e-4), math.log(10.0)
    s = math.exp(rng.uniform(lo, hi)) * beta
    return min(max(s, 1e-4 * beta), 10.0 * beta)


def pick_shape(rng, max_teams=8, max_players=8):
    r = rng.random()
    if r < 0.35:
        n = 2
    elif r < 0.6:
        n = 3
    else:
        n = rng.randint(2, max_teams)
    if rng.random() < 0.3:
        return [1] * n
    r = rng.random()
    top = max_players if r < 0.2 else min(3, max_players)
    return [rng.randint(1, top) for _ in range(n)]


def weak_order(rng, n):
    """A random weak order on n teams as a list of small non-negative ints (dense classes, shuffled)."""
    r = rng.random()
    if r < 0.35:
        k = n  # no ties
    elif r < 0.45:
        k = 1  # all tied
    else:
        k = rng.randint(1, n)
    cls = list(range(k)) + [rng.randrange(k) for _ in range(n - k)]
    rng.shuffle(cls)
    return cls


def average_ranks(cls, first=1):
    """Fractional ranking of dense classes: a tie group gets the mean of the places it occupies (places counted from `first`):
    [0, 0] -> [1.5, 1.5]; [0, 1, 1, 2] -> [1, 2.5, 2.5, 4].  Whole numbers stay ints, as a program would write them."""
    n = len(cls)
    out = [0] * n
    place = first
    for c in sorted(set(cls)):
        members = [i for i in range(n) if cls[i] == c]
        mean = (2 * place + len(members) - 1) / 2.0
        for i in members:
            out[i] = int(mean) if mean == int(mean) else mean
        place += len(members)
    return out


def encode_order(rng, cls):
    """Encode dense classes as a ranks vector or a scores vector in one of many value styles.

    Returns (kwargs for rate, style).  Strictly increasing maps only, so the weak order is cls's."""
    n = len(cls)
    k = max(cls) + 1
    style = rng.choice(["none?", "int", "int", "float", "mixed", "neg", "big", "bool?", "scores", "scores_f", "scores_neg", "frac", "bigint", "average"])
    if style == "average":
        return {"ranks": average_ranks(cls, rng.choice([1, 1, 0]))}, "average"
    if style == "frac" and k == n and n >= 3 and rng.random() < 0.6:
        j = 1 + rng.randrange(n - 2)
        d = rng.choice([-0.5, 0.5, -0.25])
        if rng.random() < 0.5:
            shift = rng.choice([0, 1])      # once for the whole vector: the map has to stay increasing
            return {"ranks": [(c + d if c == j else c) + shift for c in cls]}, "gapless"
        return {"scores": [(n - c + d if c == j else n - c) for c in cls]}, "gapless"
    if style == "bigint" and rng.random() < 0.3:
        if rng.random() < 0.5:
            return {"scores": [1e17 if c == 0 else float(2 * k - c) for c in cls]}, "widerange"
        return {"ranks": [1e18 if c == k - 1 else c * 0.5 for c in cls]}, "widerange"
    if style == "bigint":
        base = rng.choice([2**53, 10**18, -(2**62), 2**64])
        r = rng.random()
        if r < 0.35:
            return {"ranks": [base + c for c in cls]}, style
        if r < 0.7:
            return {"scores": [base - c for c in cls]}, style
        return {"ranks": [(2**53 + c) if c % 2 else float(2**53 + c) for c in cls]}, style
    if style == "none?":
        if cls == list(range(n)):
            return {}, "none"
        style = "int"
    if style == "bool?":
        if k <= 2:
            return {"ranks": [bool(c) for c in cls]}, "bool"
        style = "mixed"
    # a strictly increasing sequence of k values
    if style == "int":
        base = sorted(rng.sample(range(0, 3 * k + 2), k))
        vals = [int(v) for v in base]
    elif style == "float":
        base = sorted(rng.sample(range(0, 3 * k + 2), k))
        vals = [float(v) for v in base]
    elif style == "mixed":
        base = sorted(rng.sample(range(-k, 2 * k + 2), k))
        vals = [float(v) if rng.random() < 0.5 else int(v) for v in base]
    elif style == "neg":
        base = sorted(rng.sample(range(-5 * k - 5, 0), k))
        vals = [int(v) if rng.random() < 0.7 else float(v) for v in base]
    elif style == "big":
        base = sorted(rng.sample(range(1, 5 * k + 5), k))
        vals = [v * 1e15 if rng.random() < 0.5 else v * 10**9 for v in base]
        vals = sorted(vals)
        if len(set(vals)) < k:
            vals = [float(v) * 1e15 for v in base]
    elif style == "frac":
        base = sorted(rng.sample(range(0, 40), k))
        vals = [v / 8.0 - 1.5 for v in base]
    else:  # scores: larger is better, so map class c to a decreasing value
        base = sorted(rng.sample(range(-2 * k - 2, 4 * k + 4), k), reverse=True)
        if style == "scores":
            vals = [int(v) for v in base]
        elif style == "scores_f":
            vals = [v + 0.5 for v in base]
        else:
            vals = [float(v) - 100.0 if rng.random() < 0.5 else int(v) - 100 for v in base]
        return {"scores": [vals[c] for c in cls]}, style
    return {"ranks": [vals[c] for c in cls]}, style


def build_teams(rng, mh, shape, beta, tau_pos, named=True, session=None):
    teams = []
    for size in shape:
        team = []
        for _ in range(size):
            mu = pick_mu(rng, beta)
            sg = pick_sigma(rng, beta, tau_pos)
            nm = rng.choice(NAMES) if named else None
            team.append(mh.m.rating(mu, sg, nm) if nm is not None else mh.m.rating(mu, sg))
        teams.append(team)
    return teams


def pollute(sess, rng, kind, params, gname, vals, ops, okw=None):
    """Earlier calls by *another* model instance with other parameters on the same values: a result may
    depend only on the model's own construction parameters, so this must change nothing (C14)."""
    p2 = dict(params)
    beta = p2.get("beta", BETA0)
    p2["beta"] = beta * rng.choice([0.5, 2.0, 3.0])
    p2["tau"] = beta * rng.choice([0.0, 0.3])
    if kind in ("TMF", "TMP"):
        p2["kappa"] = min(p2.get("kappa", 1e-4), 1e-2 * math.sqrt(2.0) * p2["beta"])
    other = sess.model(kind, gamma=gname, **p2)
    for op in ops:
        teams = make_teams(other, vals)
        if op == "rate":
            if all(sg > 0 for tv in vals for (_m, sg) in tv) or p2["tau"] > 0:
                sess.rate(other, teams, **(okw or {}))
        else:
            sess.predict(op, other, teams)


def warm_up(sess, rng, mh, beta):
    """Earlier use of the *same* instance - another game, other per-call options, another encoding of the outcome:
    what a call returns may depend only on its own arguments and on the configuration of the model."""
    shape = pick_shape(rng, 5, 3)
    kw = {}
    if rng.random() < 0.6:
        kw["tau"] = beta * rng.choice([0.3, 1.0, 2.0])
    if rng.random() < 0.5:
        kw["limit_sigma"] = not mh.m.limit_sigma
    teams = build_teams(rng, mh, shape, beta, kw.get("tau", mh.m.tau) > 0)
    okw, _style = encode_order(rng, weak_order(rng, len(shape)))
    kw.update(okw)
    sess.rate(mh, teams, **kw)
    if rng.random() < 0.5:
        sess.predict(rng.choice(["win", "draw", "rank"]), mh, teams)
    if rng.random() < 0.3:
        reconfigure(sess, rng, mh)


def reconfigure(sess, rng, mh):
    """The owner assigns a public attribute of a model that has already been used: from then on that is its configuration."""
    what = rng.choice(["gamma", "gamma", "tau", "limit_sigma", "kappa"])
    if what == "gamma":
        cur = sess.gamma_names.get(id(mh.m.gamma), "?")
        sess.set_model_attr(mh, "gamma", sess.gamma_callable(mh, rng.choice([g for g in ["default", "one", "zero", "big", "probe"] if g != cur])))
    elif what == "tau":
        sess.set_model_attr(mh, "tau", mh.m.beta * rng.choice([0.02, 0.3, 1.0]))      # stays positive: sigma 0 may have been generated for it
    elif what == "limit_sigma":
        sess.set_model_attr(mh, "limit_sigma", not mh.m.limit_sigma)
    else:
        sess.set_model_attr(mh, "kappa", mh.m.kappa * rng.choice([0.1, 0.5]))


def rate_campaign(sess, rng, count, kinds=KINDS, max_teams=8, max_players=8, simple=False):
    """count independent random rate calls, one trace each."""
    for _ in range(count):
        kind = rng.choice(kinds)
        params, g, beta = pick_model_params(rng, kind, simple)
        sess.reset()
        mh = sess.model(kind, gamma=g, **params)
        warmed = rng.random() < 0.25
        if warmed:
            warm_up(sess, rng, mh, beta)
        kw = {}
        if rng.random() < 0.25:
            kw["tau"] = rng.choice([0, 0.0, beta * 1e-6, beta / 50.0, beta * rng.random(), beta])
        if rng.random() < 0.25:
            kw["limit_sigma"] = rng.random() < 0.6
            if rng.random() < 0.2:
                kw["limit_sigma"] = int(kw["limit_sigma"])     # a truthy / falsy int is a flag too
        eff_tau = kw.get("tau", mh.m.tau)
        shape = pick_shape(rng, max_teams, max_players)
        teams = build_teams(rng, mh, shape, beta, eff_tau > 0)
        if eff_tau == 0 and rng.random() < 0.3:   # a player without uncertainty beside team mates who have some
            multi = [t for t in teams if len(t) > 1]
            if multi:
                t = rng.choice(multi)
                t[rng.randrange(len(t))].sigma = rng.choice([0.0, 0])
        if rng.random() < 0.06:   # a player whose sigma is exactly what another's becomes once tau is added (same mu)
            ps = [p for t in teams for p in t]
            if len(ps) >= 2 and eff_tau > 0:
                a, b = rng.sample(ps, 2)
                b.mu, b.sigma = a.mu, math.sqrt(a.sigma * a.sigma + eff_tau * eff_tau)
        if rng.random() < 0.1:    # a newcomer: exactly the model's own prior, as model.rating() hands it out
            t = rng.choice(teams)
            j = rng.randrange(len(t))
            if abs(mh.m.mu) <= 20 * beta and 1e-4 * beta <= mh.m.sigma <= 10 * beta:
                t[j] = mh.m.rating(name=rng.choice(NAMES)) if rng.random() < 0.5 else mh.m.rating()
        if rng.random() < 0.08:   # round-number relations among the sigmas of one team
            tv = [[(p.mu, p.sigma) for p in t] for t in teams]
            sigma_pattern(rng, tv)
            if all(sg > 0 for t in tv for (_m, sg) in t):
                teams = make_teams(mh, tv, rng)
        if rng.random() < 0.08:   # exact coincidences between teams and players (see coincide)
            tv = [[(p.mu, p.sigma) for p in t] for t in teams]
            coincide(rng, tv, eff_tau)
            if all(sg > 0 for t in tv for (_m, sg) in t):
                teams = make_teams(mh, tv, rng)
        if rng.random() < 0.12:   # value-identical line-ups (different objects)
            k = rng.randrange(len(teams))
            for i in range(len(teams)):
                if i != k and rng.random() < 0.6:
                    teams[i] = [mh.m.rating(p.mu, p.sigma, rng.choice(NAMES)) for p in teams[k]]
        if rng.random() < 0.1:
            for t in teams:
                for p in t:
                    p.id = "feedfacefeedfacefeedfacefeedface"
        okw, _style = encode_order(rng, weak_order(rng, len(shape)))
        if warmed and rng.random() < 0.4:
            okw = {}        # after a game with an explicit outcome, one in the order given
        if max_teams >= 8 and rng.random() < 0.05:     # the kappa floor under the default gamma
            fv, fr = floor_game(rng, beta)
            teams = make_teams(mh, fv, rng)
            okw = {"ranks": fr} if rng.random() < 0.7 else {"scores": [-x for x in fr]}
        kw.update(okw)
        sess.rate(mh, teams, **kw)


def extremes_campaign(sess, rng, count, kinds=KINDS, ops=("rate", "win", "draw", "rank")):
    """C08: corners of the numeric domain - every team at +-20 beta or 0, sigma at 1e-4 / 1 / 10 beta (0 with tau > 0),
    team sizes 1..16, 2..8 teams, beta over six orders of magnitude, kappa 1e-2..1e-8, tau 0 / tiny / beta, and the
    outcomes in which the favourite wins, loses or draws."""
    for _ in range(count):
        kind = rng.choice(kinds)
        beta = BETA0 * rng.choice([1e-3, 1e-2, 1.0, 1.0, 10.0, 1e3])
        kappa = rng.choice([1e-2, 1e-4, 1e-8])
        if kind in ("TMF", "TMP"):
            kappa = min(kappa, 1e-2 * math.sqrt(2.0) * beta)
        tau = rng.choice([0.0, 1e-9 * beta, beta / 50.0, beta])
        g = rng.choice(["default", "default", "one", "big", "zero"])
        scenario = rng.random()
        if 0.24 <= scenario < 0.36:     # variance contrast without dynamics (see below)
            tau = rng.choice([0.0, 0.0, 1e-9 * beta])
            g = rng.choice(["default", "default", "default", "one"])
        sess.reset()
        mh = sess.model(kind, gamma=g, mu=6 * beta, sigma=2 * beta, beta=beta, kappa=kappa, tau=tau, limit_sigma=rng.random() < 0.2)
        n = rng.choice([2, 2, 3, 4, 8])
        size = rng.choice([1, 2, 2, 4, 8, 16])
        sizes = [size if rng.random() < 0.7 else rng.choice([1, 2, 3, 16]) for _i in range(n)]
        if 0.24 <= scenario < 0.36:
            # the largest contrast of information the domain allows: a settled solo player (sigma 1e-4 beta) against a team of
            # 3-8 newcomers (sigma 10 beta each), nothing added by tau: the settled side's variance share in c_iq^2 is ~1e-11
            n = rng.choice([2, 2, 3])
            sizes = [1, rng.choice([3, 4, 8])] + [rng.choice([1, 2])] * (n - 2)
            if rng.random() < 0.5:
                sizes[0], sizes[1] = sizes[1], sizes[0]
        if scenario < 0.12:      # largest exponent of the domain: big teams at opposite ends, hardly any uncertainty
            n = rng.choice([2, 2, 3])
            sizes = [rng.choice([13, 14, 16, 16]) for _i in range(n)]
        elif scenario < 0.24:    # one solo player holds nearly all the variance of a 6-8 team game of equals (raw delta above 1)
            n = rng.choice([6, 7, 8])
            sizes = [1] * n
        teams = []
        tot = []
        for ti, sz in enumerate(sizes):
            pat = rng.choice(["hi", "lo", "zero", "mixed", "hi", "lo"])
            u = rng.choice([1.0, 1.0, 0.95, 0.8])
            sgc = rng.choice([1e-4, 1e-4, 0.1, 1.0, 10.0, 0.0 if tau > 0 else 1e-4])
            if scenario < 0.12:
                pat = "hi" if ti % 2 == 0 else "lo"
                u = rng.choice([1.0, 1.0, 0.97])
                sgc = rng.choice([1e-4, 0.01, 0.05, 0.1])
            elif scenario < 0.24:
                pat = "zero"
                sgc = rng.choice([8.0, 10.0, 10.0]) if ti == 0 else rng.choice([1e-4, 0.01, 0.1])
            elif scenario < 0.36:
                pat = rng.choice(["zero", "zero", "hi", "lo"])
                sgc = rng.choice([1e-4, 1e-4, 3e-4]) if sz == 1 else rng.choice([10.0, 10.0, 9.0])
            team = []
            for _j in range(sz):
                mu = {"hi": 20 * beta * u, "lo": -20 * beta * u, "zero": 0.0, "mixed": rng.choice([-20, 20, 0]) * beta}[pat]
                # (the corner scenarios keep every member at the corner: one ordinary sigma among 16 players undoes the corner)
                sg = sgc * beta if (rng.random() < 0.8 or scenario < 0.12 or 0.24 <= scenario < 0.36) else pick_sigma(rng, beta, tau > 0)
                team.append(mh.m.rating(mu, sg))
            teams.append(team)
            tot.append(sum(p.mu for p in team))
        order = sorted(range(n), key=lambda i: -tot[i])
        fav = [0] * n
        for pos, i in enumerate(order):
            fav[i] = pos
        outcome = rng.choice(["favourite", "upset", "all_tied", "random"])
        if 0.12 <= scenario < 0.24:
            outcome = "dominant_last"
        if outcome == "favourite":
            ranks = fav
        elif outcome == "upset":
            ranks = [n - 1 - r for r in fav]
        elif outcome == "dominant_last":
            ranks = [n - 1] + [i for i in range(n - 1)]
            if rng.random() < 0.3:
                ranks = [n - 2] + [i for i in range(n - 2)] + [n - 2]      # tied for the bottom
        elif outcome == "all_tied":
            ranks = [0] * n
        else:
            ranks = weak_order(rng, n)
        for op in ops:
            if op == "rate":
                continue
            sess.predict(op, mh, teams)
        if "rate" in ops:
            kw = {}
            if tau == 0.0 and rng.random() < 0.5:
                # the model has no dynamics of its own, the call brings them: a team without any uncertainty is then in the domain
                kw["tau"] = beta * rng.choice([0.02, 1.0])
                if rng.random() < 0.7:
                    for p in rng.choice(teams):
                        sess.assign(p, p.mu, 0.0)
            if rng.random() < 0.5:
                sess.rate(mh, teams, ranks=ranks, **kw)
            else:
                sess.rate(mh, teams, scores=[-r for r in ranks], **kw)


def predict_campaign(sess, rng, count, kinds=KINDS, max_teams=8, max_players=8):
    """count independent random games, all three predictions on each."""
    for _ in range(count):
        kind = rng.choice(kinds)
        params, g, beta = pick_model_params(rng, kind)
        sess.reset()
        mh = sess.model(kind, gamma=g, **params)
        shape = pick_shape(rng, max_teams, max_players)
        if rng.random() < 0.1:
            shape = [rng.choice([8, 16])] * rng.randint(2, 4)
        teams = build_teams(rng, mh, shape, beta, False)
        if rng.random() < 0.15:  # exact coincidences (ordinal ties, mirrored line-ups, round-number sigmas, ...)
            tv = [[(p.mu, p.sigma) for p in t] for t in teams]
            coincide(rng, tv, 0.0)
            if all(sg > 0 for t in tv for (_m, sg) in t):
                teams = make_teams(mh, tv, rng)
        if rng.random() < 0.2:  # identical teams: probability ties
            k = rng.randrange(len(teams))
            for i in range(len(teams)):
                if i != k and rng.random() < 0.6:
                    r = rng.random()
                    if r < 0.6:
                        teams[i] = [mh.m.rating(p.mu, p.sigma) for p in teams[k]]
                    elif r < 0.75:
                        teams[i] = teams[k]                    # the same list object in two positions
                    elif r < 0.85:
                        teams[i] = list(teams[k])              # the same rating objects in another list
                    else:
                        src = list(teams[k])                   # the same roster listed in another order
                        rng.shuffle(src)
                        teams[i] = [mh.m.rating(p.mu, p.sigma) for p in src]
        if rng.random() < 0.3:
            pollute(sess, rng, kind, params, g, [[(p.mu, p.sigma) for p in t] for t in teams], ("win", "draw", "rank"))
        if rng.random() < 0.2:
            warm_up(sess, rng, mh, beta)
        if rng.random() < 0.15:
            for t in teams:
                for p in t:
                    p.id = "feedfacefeedfacefeedfacefeedface"
        for op in ("win", "draw", "rank"):
            sess.predict(op, mh, teams)
        if rng.random() < 0.2:
            # the caller reconfigures the live model (public attribute) and predicts again, same player count
            sess.set_model_attr(mh, "beta", mh.m.beta * rng.choice([0.5, 2.0, 3.0]))
            for op in ("draw", "rank", "win"):
                sess.predict(op, mh, teams)


# ============================================================================= relational groups
def coincide(rng, vals, tau):
    """Exact coincidences between different players or teams (in place): value-identical teams apart from each other, a player
    whose sigma is exactly what another's becomes once tau is added, a player equal to another team's member."""
    r = rng.random()
    n = len(vals)
    if r < 0.15 and n >= 2:
        i, k = rng.sample(range(n), 2)
        vals[i] = list(vals[k])
    elif r < 0.30:
        slots = [(i, j) for i in range(n) for j in range(len(vals[i]))]
        if len(slots) >= 2:
            (i, j), (k, l) = rng.sample(slots, 2)
            mu, sg = vals[i][j]
            t = tau if tau > 0 else sg * 0.75
            vals[k][l] = (mu, math.sqrt(sg * sg + t * t))
    elif r < 0.38:
        slots = [(i, j) for i in range(n) for j in range(len(vals[i]))]
        if len(slots) >= 2:
            (i, j), (k, l) = rng.sample(slots, 2)
            vals[k][l] = vals[i][j]
    elif r < 0.52:
        sigma_pattern(rng, vals)
    elif r < 0.74:
        ordinal_ties(rng, vals)
    elif r < 0.84 and n >= 2:
        # two teams of equal strength on paper, differently composed: the same sigmas in another order (team variances equal
        # to the last bit, members not), the mus their own or mirrored too
        multi = [i for i in range(n) if len(vals[i]) >= 2]
        if multi:
            i = rng.choice(multi)
            k = rng.choice([x for x in range(n) if x != i])
            sgs = [sg for (_m, sg) in vals[i]]
            sgs = sgs[1:] + sgs[:1] if rng.random() < 0.5 else sgs[::-1]
            mus = [vals[k][j % len(vals[k])][0] for j in range(len(sgs))]
            if rng.random() < 0.3:
                mus = [m for (m, _s) in vals[i]][::-1]
            vals[k] = list(zip(mus, sgs))


def ordinal_ties(rng, vals):
    """Players whose ordinals mu - 3 sigma are equal to the last bit while their (mu, sigma) differ - ratings order by the
    ordinal and are equal by (mu, sigma), so min / max / sorted / == on rating objects disagree exactly here: all members of
    one team, or the (single) players of two teams.  Values on a dyadic grid, so the ordinals are exact (in place)."""
    n = len(vals)
    base_mu = float(rng.choice([25, 20, 10, 0, -5, 30]))
    base_sg = float(rng.choice([5, 2, 4, 8, 1]))
    steps = rng.sample([0.0, 0.5, 1.0, 2.0, 3.0, 5.0, -0.5, -0.75], 4)
    twins = [(base_mu + 3.0 * d, base_sg + d) for d in steps if base_sg + d > 0]
    if rng.random() < 0.5:
        i = rng.randrange(n)
        m = max(2, min(len(vals[i]), len(twins)))
        vals[i] = twins[:m]
    else:
        k = min(n, len(twins))
        for i in rng.sample(range(n), k):
            vals[i] = [twins.pop()] + list(vals[i][1:] if rng.random() < 0.3 else [])


SIGMA_PATTERNS = {2: [(3, 4), (1, 1), (5, 12)], 3: [(5, 1, 7), (1, 1, 1), (13, 7, 17), (2, 3, 6), (5, 7, 1)],
                  4: [(5, 5, 1, 7), (1, 1, 1, 1), (1, 7, 5, 5)], 5: [(5, 1, 7, 5, 5)]}


def sigma_pattern(rng, vals, beta=None):
    """Exact arithmetic relations among the sigmas of ONE team (in place): a member whose variance is the team's mean variance
    (5, 1, 7: 2*25 = 1 + 49), a team variance that is a perfect square (3, 4 -> 25), all equal - the coincidences of ratings
    kept as round numbers, where a share times the team size is exactly 1, or a root comes out exact.  Sizes 2-5."""
    cands = [i for i in range(len(vals)) if len(vals[i]) in SIGMA_PATTERNS]
    if not cands:
        i = rng.randrange(len(vals))
        vals[i] = [vals[i][0]] * 3 if len(vals[i]) == 1 else vals[i]
        cands = [i] if len(vals[i]) in SIGMA_PATTERNS else []
        if not cands:
            return
    i = rng.choice(cands)
    pat = list(rng.choice(SIGMA_PATTERNS[len(vals[i])]))
    if rng.random() < 0.5:
        rng.shuffle(pat)
    top = max(sg for (_mu, sg) in vals[i])
    k = 1.0
    while max(pat) * k > max(top, 1e-12) and k > 2.0 ** -40:      # a power of two keeps every square exact
        k /= 2.0
    vals[i] = [(mu, p * k) for (mu, _sg), p in zip(vals[i], pat)]


def random_vals(rng, shape, beta, tau_pos=False):
    return [[(pick_mu(rng, beta), pick_sigma(rng, beta, tau_pos)) for _ in range(sz)] for sz in shape]


def floor_game(rng, beta, mates=True):
    """A game in which the kappa floor binds under the DEFAULT gamma for PL and the full-pairing models: a newcomer with sigma
    9-10 beta (alone, or beside a settled team mate) finishing last of 7-8 teams of settled players (sigma 0.01-0.3 beta).
    Returns (vals, ranks).  Random games do not get there (0 in 20 000); gamma = big does, but changes the step itself."""
    n = rng.choice([7, 8, 8])
    mu0 = pick_mu(rng, beta) * 0.5
    spread = rng.choice([0.0, 0.0, 0.3, 1.0]) * beta
    # the newcomer is rated like the others, or is a favourite far above them (its mean then moves by more than 3 of its sigmas)
    lead = rng.choice([0.0, 0.0, 5.0, 15.0, 38.0]) * beta
    if lead > 0:
        mu0 = -19.0 * beta + spread
    vals = [[(mu0 + spread * rng.uniform(-1, 1), beta * rng.choice([0.01, 0.05, 0.1, 0.25, 0.3]))] for _ in range(n - 1)]
    new = [(min(mu0 + lead + spread * rng.uniform(-1, 1), 19.9 * beta), beta * rng.uniform(9.0, 10.0))]
    if mates and rng.random() < 0.4:
        new.insert(rng.randrange(2), (mu0, beta * rng.choice([0.1, 0.2, 0.4])))
    vals.append(new)
    ranks = list(range(n))
    if rng.random() < 0.3:       # a tie among the settled teams
        k = rng.randrange(n - 2)
        ranks[k + 1] = ranks[k]
    return vals, ranks


DUP_IDS = [False]   # when set, every rating built by make_teams carries the same id (as deep copies do)


def make_teams(mh, vals, rng=None, names=True):
    """Fresh rating objects holding the given values (names vary when rng is given)."""
    teams = _make_teams(mh, vals, rng, names)
    if DUP_IDS[0]:
        for t in teams:
            for p in t:
                p.id = "0123456789abcdef0123456789abcdef"
    return teams


_MAKE_COUNT = [0]


def _make_teams(mh, vals, rng=None, names=True):
    """How the players of a game come to exist is part of the input: most are made by model.rating(mu, sigma, name); every
    seventh game is restored by create_rating from stored [mu, sigma] rows - ONE row object per distinct pair of values, as a
    program that keeps its rows in a table would pass them (value-identical players then come from the same list object)."""
    _MAKE_COUNT[0] += 1
    restored = _MAKE_COUNT[0] % 7 == 0
    rows = {}
    teams = []
    for tv in vals:
        team = []
        for (mu, sg) in tv:
            nm = rng.choice(NAMES) if (rng is not None and names) else None
            if restored and isinstance(mu, (int, float)) and isinstance(sg, (int, float)) and not isinstance(mu, bool) and not isinstance(sg, bool):
                row = rows.setdefault((repr(mu), repr(sg)), [mu, sg])
                team.append(mh.m.create_rating(row, nm) if nm is not None else mh.m.create_rating(row))
            else:
                team.append(mh.m.rating(mu, sg, nm) if nm is not None else mh.m.rating(mu, sg))
        teams.append(team)
    return teams


class Gid:
    def __init__(self):
        self.n = 0

    def new(self, prop, tag=""):
        self.n += 1
        return "%s:%s%d" % (prop, tag, self.n)


GID = Gid()


def all_encodings(rng, cls):
    """Several differently written outcome arguments inducing the weak order cls (dense classes)."""
    n = len(cls)
    k = max(cls) + 1
    encs = []
    encs.append({"ranks": list(cls)})
    encs.append({"ranks": [float(c) for c in cls]})
    encs.append({"ranks": [float(c) if i % 2 else int(c) for i, c in enumerate(cls)]})
    encs.append({"ranks": [int(c) if i % 2 else float(c) for i, c in enumerate(cls)]})
    encs.append({"ranks": [c - k - 3 for c in cls]})
    encs.append({"ranks": [c * 2.5 - 1.25 for c in cls]})
    encs.append({"ranks": [(c + 1) * 1e15 for c in cls]})
    encs.append({"ranks": [(c + 1) * 10**12 for c in cls]})
    encs.append({"ranks": [9007199254740992.0 + 2.0 * c for c in cls]})
    # distinct values spanning exactly n - 1 with one fractional value (a gapless-looking run that is not one)
    if k == n and n >= 3:
        j = 1 + (sum(cls) % (n - 2))
        encs.append({"ranks": [(c - 0.5 if c == j else c) for c in cls]})
        encs.append({"ranks": [(c + 0.5 if c == j else c) + 1 for c in cls]})
        encs.append({"scores": [(n - c + 0.5 if c == j else n - c) for c in cls]})
        encs.append({"ranks": [float(c) if c != j else c - 0.25 for c in cls]})
    # wide dynamic range: one huge value beside small distinct ones (differences against the extreme collapse in doubles)
    encs.append({"scores": [1e17 if c == 0 else float(2 * k - c) for c in cls]})
    encs.append({"ranks": [-1e17 if c == 0 else float(c) for c in cls]})
    encs.append({"scores": [1e300 if c == 0 else (1e-300 * (k - c) if c == k - 1 else float(k - c)) for c in cls]})
    encs.append({"ranks": [1e18 if c == k - 1 else c * 0.5 for c in cls]})
    encs.append({"ranks": [2**53 + c for c in cls]})               # distinct ints that are not distinct doubles
    encs.append({"ranks": [(2**53 + c) if c % 2 else float(2**53 + c) for c in cls]})      # ints and floats within one ulp of each other
    encs.append({"ranks": [(2**60 + 256 * c + 1) if c % 2 else float(2**60 + 256 * c) for c in cls]})
    encs.append({"scores": [(2**53 + 2 * k - c) if (c % 2) else float(2**53 + 2 * k - c - (c % 2)) for c in cls]})
    encs.append({"ranks": [10**18 + c for c in cls]})
    encs.append({"ranks": [10**400 + c for c in cls]})              # ints no double can hold, not even as inf
    encs.append({"scores": [-(10**310) * (c + 1) for c in cls]})
    encs.append({"ranks": [(-(2**1024) if c == 0 else c) for c in cls]})
    encs.append({"ranks": [-(2**60) + c for c in cls]})
    encs.append({"scores": [2**53 + 2 * k - c for c in cls]})
    encs.append({"scores": [10**20 - c for c in cls]})
    encs.append({"scores": [k - c for c in cls]})
    encs.append({"scores": [-float(c) for c in cls]})
    encs.append({"scores": [(-c if i % 2 else -float(c)) for i, c in enumerate(cls)]})
    encs.append({"scores": [100 - 7 * c for c in cls]})
    encs.append({"scores": [0.5 - c * 0.125 for c in cls]})
    if k <= 3:
        encs.append({"ranks": [_Place(c + 1) for c in cls]})                      # int subclass values
    encs.append({"ranks": [_Seconds(c * 1.5 + 9.0) for c in cls]})               # float subclass values
    if k <= 2:
        encs.append({"ranks": [bool(c) for c in cls]})
        encs.append({"scores": [not bool(c) for c in cls]})
        encs.append({"ranks": [bool(c) if i % 2 else float(c) for i, c in enumerate(cls)]})
    if cls == list(range(n)):
        encs.append({})
    # zeros: -0.0 and 0 and 0.0 are the same value
    encs.append({"ranks": [(-0.0 if c == 0 else float(c)) for c in cls]})
    for _ in range(2):
        kw, _ = encode_order(rng, cls)
        encs.append(kw)
    return encs


def order_groups(sess, rng, count, kinds=KINDS, max_teams=6, per_group=8):
    """C03: one game under many equivalent writings of the same weak order."""
    for _ in range(count):
        kind = rng.choice(kinds)
        params, g, beta = pick_model_params(rng, kind, simple=rng.random() < 0.5)
        sess.reset()
        mh = sess.model(kind, gamma=g, **params)
        shape = pick_shape(rng, max_teams, 3)
        vals = random_vals(rng, shape, beta, mh.m.tau > 0)
        cls = weak_order(rng, len(shape))
        encs = all_encodings(rng, cls)
        rng.shuffle(encs)
        encs = [{"ranks": list(cls)}] + encs[: per_group - 1]
        gid = GID.new("C03")
        for i, kw in enumerate(encs):
            sess.rate(mh, make_teams(mh, vals), group=gid, role="base" if i == 0 else "order", **kw)


def random_perm(rng, n):
    p = list(range(1, n + 1))
    rng.shuffle(p)
    return p


def perm_groups(sess, rng, count, prop, ops=("rate",), kinds=KINDS, max_teams=6, per_group=5, exhaustive_upto=0):
    """C04 / C09 / C10: the same game with teams and members listed in other orders."""
    import itertools

    for _ in range(count):
        kind = rng.choice(kinds)
        params, g, beta = pick_model_params(rng, kind, simple=rng.random() < 0.5)
        if rng.random() < 0.25:
            g = "probe"          # a callback that weighs each of its six arguments
        sess.reset()
        mh = sess.model(kind, gamma=g, **params)
        shape = pick_shape(rng, max_teams, 3)
        n = len(shape)
        vals = random_vals(rng, shape, beta, mh.m.tau > 0)
        coincide(rng, vals, mh.m.tau)
        shape = [len(t) for t in vals]
        cls = weak_order(rng, n)
        okw = rng.choice(all_encodings(rng, cls)) if rng.random() < 0.6 else encode_order(rng, cls)[0]
        sel = "ranks" if "ranks" in okw else "scores" if "scores" in okw else None
        ovec = okw.get(sel) if sel else None
        if n <= exhaustive_upto:
            tps = [list(p) for p in itertools.permutations(range(1, n + 1))]
        else:
            tps = [random_perm(rng, n) for _ in range(per_group)]
        DUP_IDS[0] = rng.random() < 0.2     # ids are not inputs: equal ids (as deep copies have) must change nothing
        for op in ops:
            gid = GID.new(prop)
            # "live" variant for predictions: the same objects throughout - predicted once with other values, changed in
            # place (public attributes), predicted again, then listed in other orders.  Anything remembered per object
            # or per id from the first prediction must not matter.
            live = op != "rate" and rng.random() < 0.35
            objs = None
            if live:
                warm = [[(mu + rng.choice([-1.0, 0.5, 2.0]) * beta, sg * rng.choice([0.5, 1.0, 2.0])) for (mu, sg) in tv] for tv in vals]
                warm = [[(max(min(mu, 20 * beta), -20 * beta), min(max(sg, 1e-4 * beta), 10 * beta)) for (mu, sg) in tv] for tv in warm]
                objs = make_teams(mh, warm)
                mine = [list(t) for t in objs]       # the driver's own record of who is where: the lists it hands out may come back changed
                sess.predict(op, mh, objs)
                objs = mine
                for tv, to in zip(vals, objs):
                    for (mu, sg), o in zip(tv, to):
                        sess.assign(o, mu, sg)
            if op == "rate":
                sess.rate(mh, make_teams(mh, vals), group=gid, role="base", **okw)
            else:
                sess.predict(op, mh, [list(t) for t in objs] if live else make_teams(mh, vals), group=gid, role="base")
            for tp in tps:
                mps = [random_perm(rng, shape[tp[k] - 1]) if rng.random() < 0.7 else list(range(1, shape[tp[k] - 1] + 1)) for k in range(n)]
                pv = [[vals[tp[k] - 1][mps[k][l] - 1] for l in range(len(mps[k]))] for k in range(n)]
                aux = [tp, mps]
                if op == "rate":
                    kw = {}
                    if sel:
                        kw[sel] = [ovec[tp[k] - 1] for k in range(n)]
                    else:
                        kw["ranks"] = [tp[k] - 1 for k in range(n)]
                    sess.rate(mh, make_teams(mh, pv), group=gid, role="perm", aux=aux, **kw)
                elif live:
                    po = [[objs[tp[k] - 1][mps[k][l] - 1] for l in range(len(mps[k]))] for k in range(n)]
                    sess.predict(op, mh, po, group=gid, role="perm", aux=aux)
                else:
                    sess.predict(op, mh, make_teams(mh, pv), group=gid, role="perm", aux=aux)
        DUP_IDS[0] = False


def construct_campaign(sess, rng, count, kinds=KINDS):
    """Model construction as an operation (OpenSkill!NewModel): every subset of the seven arguments - ints, floats, flags,
    named callbacks - each attribute alone, everything omitted; then the model is used (rate, the predictions, rating()
    with and without values), so that an attribute that is stored but not the one read later shows as well."""
    attrs = ["mu", "sigma", "beta", "kappa", "tau", "limit_sigma", "gamma"]
    for i in range(count):
        kind = kinds[i % len(kinds)]
        r = rng.random()
        if r < 0.15:
            chosen = []
        elif r < 0.45:
            chosen = [rng.choice(attrs)]
        elif r < 0.6:
            chosen = list(attrs)
        else:
            chosen = [a for a in attrs if rng.random() < 0.5]
        beta = BETA0
        kw, g = {}, "default"
        if "beta" in chosen:
            beta = rng.choice([1, 2, 5, 2.5, 0.5, BETA0, 40, 12.5])
            kw["beta"] = beta
        for a in chosen:
            if a == "mu":
                kw["mu"] = rng.choice([0, 10, 30, -4, 25.0, 1500, 7.25, 100])
            elif a == "sigma":
                kw["sigma"] = rng.choice([1, 2, 3, 0.5, 8.0, 25.0 / 3.0, 350])
            elif a == "kappa":
                kmax = 1e-2 if kind not in ("TMF", "TMP") else min(1e-2, 1e-2 * math.sqrt(2.0) * beta)
                kw["kappa"] = min(kmax, rng.choice([1e-8, 1e-6, 1e-5, 1e-3, 1e-2, 0.005]))
            elif a == "tau":
                kw["tau"] = rng.choice([0, 0.0, 1, 2, 0.25, beta / 50.0, beta])
            elif a == "limit_sigma":
                kw["limit_sigma"] = rng.random() < 0.6
            elif a == "gamma":
                g = rng.choice(["one", "zero", "big", "probe"])
        if kind in ("TMF", "TMP") and "kappa" not in kw and 1e-4 > 1e-2 * math.sqrt(2.0) * beta:
            kw["kappa"] = 1e-2 * beta
        sess.reset()
        mh = sess.model(kind, gamma=g, **kw)
        tau = float(kw.get("tau", 25.0 / 300.0))
        shape = pick_shape(rng, 4, 3)
        vals = random_vals(rng, shape, beta, tau > 0)
        okw, _ = encode_order(rng, weak_order(rng, len(shape)))
        sess.rate(mh, make_teams(mh, vals, rng), **okw)
        pv = random_vals(rng, pick_shape(rng, 4, 3), beta, False)
        for op in ("win", "draw", "rank"):
            sess.predict(op, mh, make_teams(mh, pv))
        # the model's mu / sigma are the defaults of rating(): nothing given, one given, zero and negative values given
        sess.new_rating(mh)
        sess.new_rating(mh, mu=rng.choice([0, -3, 41.5]))
        sess.new_rating(mh, sigma=rng.choice([0, 1.5, 7]))
        # two newcomers built from the defaults play a game
        a, b = sess.new_rating(mh, name="x"), sess.new_rating(mh, name="y")
        if a is not None and b is not None and abs(float(a.mu)) <= 20 * beta and 1e-4 * beta <= float(a.sigma) <= 10 * beta:
            sess.rate(mh, [[a], [b]])


def pattern_groups(sess, rng, prop="C04", kinds=KINDS):
    """Stratified, not sampled: for every model and every pattern of SIGMA_PATTERNS one game in which a team's sigmas stand in
    that exact relation (scaled by a power of two), listed with every rotation of that team's members (and the teams reversed),
    under tau = 0 and the default tau.  The coincidences are those of ratings kept as round numbers."""
    for kind in kinds:
        for size, pats in sorted(SIGMA_PATTERNS.items()):
            for pat in pats:
                for tau in (0.0, None):
                    kw = {} if tau is None else {"tau": tau}
                    sess.reset()
                    mh = sess.model(kind, **kw)
                    k = rng.choice([1.0, 0.5, 0.25, 2.0]) if max(pat) * 2.0 <= 10 * BETA0 else rng.choice([1.0, 0.5, 0.25])
                    team = [(BETA0 * rng.choice([4.0, 5.0, 6.0, 7.5]), p * k) for p in pat]
                    others = [[(pick_mu(rng, BETA0) * 0.5, pick_sigma(rng, BETA0, False)) for _ in range(rng.randint(1, 2))] for _t in range(rng.randint(1, 2))]
                    vals = [team] + others
                    n = len(vals)
                    ranks = random_perm(rng, n)
                    gid = GID.new(prop)
                    sess.rate(mh, make_teams(mh, vals), ranks=ranks, group=gid, role="base")
                    for rot in range(1, size):
                        mp0 = [((j + rot) % size) + 1 for j in range(size)]
                        for rev in (False, True):
                            tp = list(range(1, n + 1))
                            if rev:
                                tp = tp[::-1]
                            mps = [mp0 if tp[q_] == 1 else list(range(1, len(vals[tp[q_] - 1]) + 1)) for q_ in range(n)]
                            pv = [[vals[tp[q_] - 1][mps[q_][l] - 1] for l in range(len(mps[q_]))] for q_ in range(n)]
                            sess.rate(mh, make_teams(mh, pv), ranks=[ranks[tp[q_] - 1] for q_ in range(n)], group=gid, role="perm", aux=[tp, mps])


def newcomer_groups(sess, rng, kinds=KINDS):
    """C16, stratified: every model x limit_sigma on / off x two taus - a game of equal-sized teams in which one or two players
    are newcomers (exactly the model's own prior, as model.rating() hands it out), then the same game shifted by a constant
    (the model's mu is not a rating and stays) and rescaled (the model with it)."""
    for kind in kinds:
        for lim in (True, False):
            for tau in (BETA0 / 50.0, BETA0 / 3.0):
                sess.reset()
                base = sess.model(kind, tau=tau, limit_sigma=lim)
                size = rng.choice([1, 2, 2])
                n = rng.choice([2, 2, 3])
                vals = random_vals(rng, [size] * n, BETA0, True)
                vals = [[(mu * 0.5, sg) for (mu, sg) in tv] for tv in vals]
                for _nc in range(rng.randint(1, 2)):
                    vals[rng.randrange(n)][rng.randrange(size)] = (base.m.mu, base.m.sigma)
                okw = {"ranks": random_perm(rng, n)}
                for op in ("rate", "win", "draw", "rank"):
                    gid = GID.new("C16", "new" + op)
                    if op == "rate":
                        sess.rate(base, make_teams(base, vals), group=gid, role="base", **okw)
                    else:
                        sess.predict(op, base, make_teams(base, vals), group=gid, role="base")
                    for d in (3.5, -float(rng.randint(1, 9))):
                        shv = [[(mu + d, sg) for (mu, sg) in tv] for tv in vals]
                        if op == "rate":
                            sess.rate(base, make_teams(base, shv), group=gid, role="shifted", aux=[d], **okw)
                        else:
                            sess.predict(op, base, make_teams(base, shv), group=gid, role="shifted", aux=[d])
                    k = rng.choice([2.0, 0.5, 7.0])
                    mk = sess.model(kind, mu=base.m.mu * k, sigma=base.m.sigma * k, beta=BETA0 * k, tau=tau * k, limit_sigma=lim, kappa=base.m.kappa)
                    sv = [[(mu * k, sg * k) for (mu, sg) in tv] for tv in vals]
                    if op == "rate":
                        sess.rate(mk, make_teams(mk, sv), group=gid, role="scaled", aux=[k], **okw)
                    else:
                        sess.predict(op, mk, make_teams(mk, sv), group=gid, role="scaled", aux=[k])


def widerange_perm_groups(sess, rng, prop="C04", kinds=KINDS):
    """Stratified: for every model a three- or four-team game whose outcome values span more than 2^53 (a score of 1e17 beside
    scores of 1, 2, 3; a rank of 1e18 beside halves; ints beyond 2^53 beside small floats) - written as scores and as ranks -
    in every listing of the teams.  Any arithmetic on the values (max - score, differences, float keys) collapses or reorders
    the small ones; the weak order does not."""
    import itertools
    for kind in kinds:
        n = rng.choice([3, 4])
        encs = [("scores", [1e17] + [float(n - i) for i in range(1, n)]),
                ("scores", [float(n - i) for i in range(n - 1)] + [-1e17]),
                ("ranks", [0.5 * i for i in range(n - 1)] + [1e18]),
                ("ranks", [-(10 ** 17)] + [float(i) for i in range(1, n)]),
                ("scores", [2 ** 60 + 1, 2 ** 60, 2.5, 1.5][:n])]
        for sel, vec in encs:
            sess.reset()
            mh = sess.model(kind)
            vals = random_vals(rng, [rng.randint(1, 2) for _ in range(n)], BETA0, True)
            gid = GID.new(prop)
            sess.rate(mh, make_teams(mh, vals), group=gid, role="base", **{sel: list(vec)})
            for tp in itertools.permutations(range(1, n + 1)):
                if list(tp) == list(range(1, n + 1)):
                    continue
                pv = [vals[tp[k] - 1] for k in range(n)]
                aux = [list(tp), [list(range(1, len(t) + 1)) for t in pv]]
                sess.rate(mh, make_teams(mh, pv), group=gid, role="perm", aux=aux, **{sel: [vec[tp[k] - 1] for k in range(n)]})


def effopts_groups(sess, rng, count, kinds=KINDS):
    """C15: per-call tau / limit_sigma against model-level settings."""
    for _ in range(count):
        kind = rng.choice(kinds)
        beta = BETA0
        taus = [0, 0.0, beta * 1e-9, beta / 50.0, 10 * beta, beta * rng.random()]
        t = rng.choice(taus)
        b = rng.random() < 0.5
        other_tau = rng.choice([0.0, beta / 50.0, beta])
        other_lim = rng.random() < 0.5
        shape = pick_shape(rng, 5, 3)
        # priors where the clamp matters: large tau relative to sigma makes posterior sigma exceed the prior
        vals = random_vals(rng, shape, beta, float(t) > 0 and other_tau > 0)
        okw, _ = encode_order(rng, weak_order(rng, len(shape)))
        # the other parts of the step under the same options: a callback (floor active under `big`), the floor under the default gamma
        g = rng.choice(["default", "default", "big", "probe", "one"])
        if rng.random() < 0.2:
            okw = {}            # the order the teams are listed in: no ranks, no scores
        if rng.random() < 0.15:
            vals, fr = floor_game(rng, beta)
            okw = {"ranks": fr}
            if float(t) == 0 or other_tau == 0:
                t, other_tau = beta / 50.0, beta
        sess.reset()
        gid = GID.new("C15")
        m_model = sess.model(kind, gamma=g, tau=float(t), limit_sigma=b)          # model-level setting, no argument
        sess.rate(m_model, make_teams(m_model, vals), group=gid, role="base", **okw)
        m_call = sess.model(kind, gamma=g, tau=other_tau, limit_sigma=other_lim)  # per-call arguments override
        sess.rate(m_call, make_teams(m_call, vals), tau=t, limit_sigma=b, group=gid, role="effopts", **okw)
        m_tau = sess.model(kind, gamma=g, tau=other_tau, limit_sigma=b)           # only tau per call
        sess.rate(m_tau, make_teams(m_tau, vals), tau=t, group=gid, role="effopts", **okw)
        m_lim = sess.model(kind, gamma=g, tau=float(t), limit_sigma=other_lim)    # only limit_sigma per call
        sess.rate(m_lim, make_teams(m_lim, vals), limit_sigma=b, group=gid, role="effopts", **okw)
        m_pos = sess.model(kind, gamma=g, tau=other_tau, limit_sigma=other_lim)   # options passed by position, in the documented order
        pk = dict(okw)
        pk.setdefault("ranks", None)
        pk.setdefault("scores", None)
        sess.rate(m_pos, make_teams(m_pos, vals), tau=t, limit_sigma=b, group=gid, role="effopts", positional=True, **pk)
        m_none = sess.model(kind, gamma=g, tau=float(t), limit_sigma=b)           # explicit None = omitted
        sess.rate(m_none, make_teams(m_none, vals), tau=None, limit_sigma=None, group=gid, role="effopts", **okw)


def same_groups(sess, rng, count, prop="C14", kinds=KINDS):
    """C14: the same call after different histories, with different ids / names / objects."""
    for _ in range(count):
        kind = rng.choice(kinds)
        params, g, beta = pick_model_params(rng, kind, simple=rng.random() < 0.5)
        sess.reset()
        fresh = sess.model(kind, gamma=g, **params)
        used = sess.model(kind, gamma=g, **params)
        # a history on the used model: calls with every per-call option
        for _h in range(rng.randint(1, 4)):
            shape = pick_shape(rng, 4, 2)
            hv = random_vals(rng, shape, beta, True)
            kw, _ = encode_order(rng, weak_order(rng, len(shape)))
            r = rng.random()
            if r < 0.4:
                kw["limit_sigma"] = rng.random() < 0.5
            if rng.random() < 0.4:
                kw["tau"] = rng.choice([0, beta / 10, beta])
            if kw.get("tau", used.m.tau) == 0:
                hv = [[(mu, sg if sg > 0 else beta) for (mu, sg) in tv] for tv in hv]
            ht = make_teams(used, hv, rng)
            which = rng.random()
            if which < 0.6:
                sess.rate(used, ht, **kw)
            else:
                sess.predict(rng.choice(["win", "draw", "rank"]), used, ht)
        shape = pick_shape(rng, 5, 3)
        vals = random_vals(rng, shape, beta, fresh.m.tau > 0)
        okw, _ = encode_order(rng, weak_order(rng, len(shape)))
        for op in ["rate", "win", "draw", "rank"]:
            gid = GID.new(prop, "hist")
            for i, mh in enumerate([fresh, used, used]):
                teams = make_teams(mh, vals, rng if i else None)
                if i == 2:  # the same objects used for several predictions, ids set by hand
                    for t in teams:
                        for p in t:
                            p.id = "fixed-id"
                if op == "rate":
                    sess.rate(mh, teams, group=gid, role="same" if i else "base", **okw)
                else:
                    sess.predict(op, mh, teams, group=gid, role="same" if i else "base")


def scale_groups(sess, rng, count, kinds=KINDS):
    """C16: unit (scaled) and origin (shifted) of the skill scale."""
    for _ in range(count):
        kind = rng.choice(kinds)
        sess.reset()
        beta = BETA0
        tau = rng.choice([0.0, beta / 50.0, beta / 3.0, beta * 1e-3, beta * 1e-4, beta * 1e-5])
        lim = rng.random() < 0.4
        g = rng.choice(["default", "default", "one", "big", "zero"])
        base = sess.model(kind, gamma=g, tau=tau, limit_sigma=lim)
        equal = rng.random() < 0.6
        shape = pick_shape(rng, 5, 3)
        if equal:
            shape = [shape[0]] * len(shape)
        vals = random_vals(rng, shape, beta, tau > 0)
        if rng.random() < 0.4:      # newcomers: players exactly at the model's own prior (what model.rating() hands out)
            for _nc in range(rng.randint(1, 2)):
                i_ = rng.randrange(len(vals))
                vals[i_][rng.randrange(len(vals[i_]))] = (base.m.mu, base.m.sigma)
        okw, _ = encode_order(rng, weak_order(rng, len(shape)))
        ks = [2.0 ** -10, 2.0 ** 10, 1e-3, 0.3, 7.0, 1e3, 10 ** rng.uniform(-3, 3)]
        for op in ["rate", "win", "draw", "rank"]:
            gid = GID.new("C16", op)
            if op == "rate":
                sess.rate(base, make_teams(base, vals), group=gid, role="base", **okw)
            else:
                sess.predict(op, base, make_teams(base, vals), group=gid, role="base")
            for ki_, k in enumerate(rng.sample(ks, 3)):
                if ki_ == 2:
                    # the used model object itself is rescaled by assigning its public attributes (and put back afterwards)
                    saved = (base.m.mu, base.m.sigma, base.m.beta, base.m.tau)
                    for a_, v_ in zip(("mu", "sigma", "beta", "tau"), saved):
                        sess.set_model_attr(base, a_, v_ * k)
                    sv = [[(mu * k, sg * k) for (mu, sg) in tv] for tv in vals]
                    if op == "rate":
                        sess.rate(base, make_teams(base, sv), group=gid, role="scaled", aux=[k], **okw)
                    else:
                        sess.predict(op, base, make_teams(base, sv), group=gid, role="scaled", aux=[k])
                    for a_, v_ in zip(("mu", "sigma", "beta", "tau"), saved):
                        sess.set_model_attr(base, a_, v_)
                    continue
                mk = sess.model(kind, gamma=g, mu=base.m.mu * k, sigma=base.m.sigma * k, beta=beta * k, tau=tau * k,
                                limit_sigma=lim, kappa=base.m.kappa)
                sv = [[(mu * k, sg * k) for (mu, sg) in tv] for tv in vals]
                if op == "rate":
                    sess.rate(mk, make_teams(mk, sv), group=gid, role="scaled", aux=[k], **okw)
                else:
                    sess.predict(op, mk, make_teams(mk, sv), group=gid, role="scaled", aux=[k])
            if equal:
                lo = min(mu for tv in vals for (mu, _s) in tv)
                hi = max(mu for tv in vals for (mu, _s) in tv)
                for _ in range(2):
                    d = rng.uniform(-20 * beta - lo, 20 * beta - hi)
                    if rng.random() < 0.3:
                        d = float(round(d))
                    shv = [[(mu + d, sg) for (mu, sg) in tv] for tv in vals]
                    if op == "rate":
                        sess.rate(base, make_teams(base, shv), group=gid, role="shifted", aux=[d], **okw)
                    else:
                        sess.predict(op, base, make_teams(base, shv), group=gid, role="shifted", aux=[d])


import enum as _enum


class _Place(_enum.IntEnum):
    """Placements as an int subclass (isinstance(x, int) holds)."""
    FIRST = 1
    SECOND = 2
    THIRD = 3


class _Seconds(float):
    """Finish times as a float subclass."""


def outcome_groups(sess, rng, count, kinds=KINDS):
    """C05: two-team games under win/draw/loss; swaps of places in games without ties."""
    for _ in range(count):
        kind = rng.choice(kinds)
        params, g, beta = pick_model_params(rng, kind, simple=rng.random() < 0.4)
        if g in ("probe",):
            g = "default"
        sess.reset()
        mh = sess.model(kind, gamma=g, **params)
        shape = [rng.randint(1, 3), rng.randint(1, 3)]
        vals = random_vals(rng, shape, beta, mh.m.tau > 0)
        if rng.random() < 0.3:  # big mismatch: 5-8 combined sigma apart
            for j in range(len(vals[0])):
                vals[0][j] = (20 * beta * rng.choice([-1, 1]) * rng.uniform(0.5, 1), vals[0][j][1])
        if rng.random() < 0.35:
            coincide(rng, vals, mh.m.tau)        # exact coincidences: mirrored line-ups, round-number sigmas, ...
        gid = GID.new("C05", "out")
        enc = rng.choice([("ranks", [0, 1], [0, 0], [1, 0]), ("ranks", [1.0, 2.0], [3, 3.0], [2, 1]),
                          ("scores", [5, 1], [2, 2], [0, 7]), ("ranks", [-1, 0], [0.0, 0], [4, 3]),
                          ("ranks", [False, True], [False, False], [True, False]), ("ranks", [False, True], [True, True], [True, False]),
                          ("ranks", [1, 2], [1.5, 1.5], [2, 1]), ("ranks", [1, 2], [1.5, 1.5], [2, 1]), ("ranks", [0, 1], [0.5, 0.5], [1, 0]),
                          ("ranks", [_Place(1), _Place(2)], [_Place(2), _Place(2)], [_Place(3), _Place(1)]),
                          ("ranks", [_Seconds(9.5), _Seconds(11.0)], [_Seconds(9.5), _Seconds(9.5)], [_Seconds(12.0), 10.0])])
        sel, win, draw, loss = enc
        sess.rate(mh, make_teams(mh, vals), group=gid, role="base", **{sel: win})
        sess.rate(mh, make_teams(mh, vals), group=gid, role="draw", **{sel: draw})
        sess.rate(mh, make_teams(mh, vals), group=gid, role="loss", **{sel: loss})
        # swaps
        shape = pick_shape(rng, 6, 2)
        n = len(shape)
        vals = random_vals(rng, shape, beta, mh.m.tau > 0)
        if rng.random() < 0.3 and n >= 3:  # identical teams
            vals[1] = list(vals[0])
            shape[1] = shape[0]
        order = random_perm(rng, n)
        ranks = [order[i] for i in range(n)]
        gid = GID.new("C05", "swap")
        sess.rate(mh, make_teams(mh, vals), ranks=ranks, group=gid, role="base")
        pairs = [(i, j) for i in range(n) for j in range(n) if ranks[j] < ranks[i]]
        for (i, j) in rng.sample(pairs, min(4, len(pairs))):
            r2 = list(ranks)
            r2[i], r2[j] = r2[j], r2[i]
            sess.rate(mh, make_teams(mh, vals), ranks=r2, group=gid, role="swap", aux=[i + 1, j + 1])


def predict_relations(sess, rng, count, kinds=KINDS):
    """C09 increments, C10 gap / equalised, C11 rank + draw = 1."""
    for _ in range(count):
        kind = rng.choice(kinds)
        params, g, beta = pick_model_params(rng, kind, simple=rng.random() < 0.5)
        sess.reset()
        mh = sess.model(kind, gamma=g, **params)
        shape = pick_shape(rng, 8, 4)
        n = len(shape)
        vals = random_vals(rng, shape, beta)
        if rng.random() < 0.3:
            # the ladders start from an exact coincidence (ordinal ties between single players above all: there a decision
            # taken by comparing rating objects flips with the first step)
            if rng.random() < 0.5 and 19.0 * beta >= 30.0:      # (the ladder's top is 20 beta: the twins must lie below it)
                vals = [[v] for v in rng.sample([(30.0, 10.0), (15.0, 5.0), (24.0, 8.0), (7.5, 2.5)], rng.choice([2, 2, 3]))]
            elif 19.0 * beta >= 45.0:
                coincide(rng, vals, 0.0)
            shape = [len(t) for t in vals]
            n = len(shape)
        DUP_IDS[0] = rng.random() < 0.2
        if rng.random() < 0.5:
            pollute(sess, rng, kind, params, g, vals, ("win", "draw", "rank"))
        # C09: raise one member's mu by a ladder of steps
        gid = GID.new("C09", "inc")
        sess.predict("win", mh, make_teams(mh, vals), group=gid, role="base")
        i = rng.randrange(n)
        j = rng.randrange(shape[i])
        mu0 = vals[i][j][0]
        for step in [math.ulp(mu0) if mu0 != 0 else 5e-324, 1e-9 * beta, 1e-3 * beta, beta, 10 * beta]:
            mu1 = min(mu0 + step, 20 * beta)
            v2 = [list(tv) for tv in vals]
            v2[i][j] = (mu1, vals[i][j][1])
            sess.predict("win", mh, make_teams(mh, v2), group=gid, role="inc", aux=[i + 1, j + 1])
        if rng.random() < 0.3:
            # the live model is reconfigured between predictions (public attribute): later answers must follow
            sess.predict("rank", mh, make_teams(mh, vals))
            sess.set_model_attr(mh, "beta", mh.m.beta * rng.choice([0.5, 2.0]))
        # C11: rank + draw
        gid = GID.new("C11", "sum")
        sess.predict("rank", mh, make_teams(mh, vals), group=gid, role="base")
        sess.predict("draw", mh, make_teams(mh, vals), group=gid, role="rank_draw")
        # C10: equalised totals
        gid = GID.new("C10", "eq")
        sess.predict("draw", mh, make_teams(mh, vals), group=gid, role="base")
        target = rng.uniform(-5, 15) * beta
        ev = []
        for tv in vals:
            tot = sum(mu for (mu, _s) in tv)
            d = (target * min(shape) / 1.0 - tot) / len(tv) if False else (target - tot) / len(tv)
            ev.append([(mu + d, sg) for (mu, sg) in tv])
        ok = all(abs(mu) <= 20 * beta for tv in ev for (mu, _s) in tv)
        if ok:
            sess.predict("draw", mh, make_teams(mh, ev), group=gid, role="equalised")
        # C10: two teams, widening gap
        shape2 = [rng.randint(1, 4), rng.randint(1, 4)]
        v = random_vals(rng, shape2, beta)
        gid = GID.new("C10", "gap")
        gap0 = sum(m for (m, _s) in v[0]) - sum(m for (m, _s) in v[1])
        sgn = 1.0 if gap0 >= 0 else -1.0
        prev = None
        for step in [0.0, 1e-12 * beta, 1e-6 * beta, 0.01 * beta, beta, 5 * beta, 30 * beta]:
            v2 = [list(tv) for tv in v]
            mu, sg = v2[0][0]
            mu2 = mu + sgn * step
            if abs(mu2) > 20 * beta:
                break
            v2[0][0] = (mu2, sg)
            teams = make_teams(mh, v2)
            if prev is None:
                sess.predict("draw", mh, teams, group=gid, role="base")
            else:
                # compare with the previous (narrower) gap: new group per adjacent pair
                gid = GID.new("C10", "gap")
                sess.predict("draw", mh, make_teams(mh, prev), group=gid, role="base")
                sess.predict("draw", mh, teams, group=gid, role="gap")
            prev = v2
        DUP_IDS[0] = False


def near_tie_ranks(sess, rng, count, kinds=KINDS):
    """C11: teams whose totals agree up to the last bit (the same roster summed in another order) - equal returned
    probabilities must share a rank, unequal ones must not."""
    import itertools
    for _ in range(count):
        kind = rng.choice(kinds)
        params, g, beta = pick_model_params(rng, kind, simple=True)
        sess.reset()
        mh = sess.model(kind, gamma=g, **params)
        size = rng.choice([3, 3, 4, 5])
        roster = [(pick_mu(rng, beta), pick_sigma(rng, beta)) for _i in range(size)]
        orders = [list(roster)]
        base_sum = sum(m for (m, _s) in roster)
        perms = list(itertools.permutations(roster))
        rng.shuffle(perms)
        for p in perms[:40]:
            t = 0.0
            for (m, _s) in p:
                t += m
            if t != base_sum and len(orders) < 3:
                orders.append(list(p))
        while len(orders) < 2:
            orders.append(list(perms[0]))
        n = rng.choice([3, 3, 4, 5])
        vals = list(orders)
        while len(vals) < n:
            vals.append([(pick_mu(rng, beta), pick_sigma(rng, beta)) for _i in range(rng.randint(1, size))])
        rng.shuffle(vals)
        sess.predict("rank", mh, make_teams(mh, vals))
        # two teams whose totals differ by less than the subtraction can see (the probabilities come out bit-equal or one ulp
        # apart): whatever the probabilities are, the ranks must say the same
        if _ % 12:
            continue
        sg = pick_sigma(rng, beta)
        for (a, b) in [(0.0, 1e-18), (1e-18, 0.0), (0.25, 0.25 + 2.0 ** -54), (beta, beta * (1 + 2.0 ** -52)), (-1e-300, 1e-300),
                       (3.0 * beta, math.nextafter(3.0 * beta, 100.0)), (0.0, 5e-324), (0.0, -0.0)]:
            vals2 = [[(a, sg)], [(b, sg)]] if rng.random() < 0.6 else [[(a, sg), (1.0, sg)], [(1.0, sg), (b, sg)]]
            for op in ("rank", "win"):
                sess.predict(op, mh, make_teams(mh, vals2))
            sess.predict("rank", mh, make_teams(mh, vals2 + [[(pick_mu(rng, beta), sg)]]))


def model_groups(sess, rng, count):
    """C19: the same call on all five classes (predictions, acceptance, BT part = full on two teams)."""
    for _ in range(count):
        params, g, beta = pick_model_params(rng, "TMF", simple=rng.random() < 0.5)
        sess.reset()
        shape = pick_shape(rng, 6, 3)
        if rng.random() < 0.4:
            shape = shape[:2]
        vals = random_vals(rng, shape, beta, params.get("tau", 1.0) > 0)
        if rng.random() < 0.5:  # identical teams: exact probability ties (partial and total)
            k = rng.randrange(len(vals))
            for i in range(len(vals)):
                if i != k and rng.random() < 0.5:
                    vals[i] = list(vals[k])
        okw, _ = encode_order(rng, weak_order(rng, len(shape)))
        used = rng.random() < 0.3      # the same question to models that have been used and then given this gamma by assignment
        for op in ["rate", "win", "draw", "rank"]:
            gid = GID.new("C19", op)
            for i, kind in enumerate(KINDS):
                if used:
                    mh = sess.model(kind, gamma=rng.choice([x for x in ["default", "one", "big"] if x != g]), **params)
                    wv = random_vals(rng, pick_shape(rng, 3, 2), beta, params.get("tau", 1.0) > 0)
                    sess.rate(mh, make_teams(mh, wv))
                    sess.set_model_attr(mh, "gamma", sess.gamma_callable(mh, g))
                else:
                    mh = sess.model(kind, gamma=g, **params)
                if op == "rate":
                    sess.rate(mh, make_teams(mh, vals), group=gid, role="model" if i else "base", **okw)
                else:
                    sess.predict(op, mh, make_teams(mh, vals), group=gid, role="model" if i else "base")


# ============================================================================= objects
class Permissive:
    """A foreign object whose own __eq__ claims equality with everything (like unittest.mock.ANY)."""

    def __eq__(self, other):
        return True

    def __ne__(self, other):
        return False

    __hash__ = None


def object_campaign(sess, rng, count, kinds=KINDS):
    """C18 / C20: construction, copies, comparisons, ordinals, sorting."""
    grid_mu = [-3.0, -1.5, 0.0, 1.5, 3.0, 6.0, 25.0, -0.0]
    grid_sg = [0.0, 0.5, 1.0, 1.5, 2.0, 25.0 / 3.0]
    for _ in range(count):
        kind = rng.choice(kinds)
        sess.reset()
        mh = sess.model(kind)
        others = [sess.model(k) for k in kinds if k != kind]
        # construction
        for _c in range(3):
            mu = rng.choice([None, 0, 0.0, -0.0, -3, -3.5, 25, 1e-300, 1e300, rng.uniform(-100, 100)])
            sg = rng.choice([None, 0, 0.0, -0.0, -2.5, 8, 1e-300, 1e300, rng.uniform(0, 50)])
            nm = rng.choice([None, "a", "bob", "P 1"])
            kw = {}
            if mu is not None or rng.random() < 0.3:
                kw["mu"] = mu
            if sg is not None or rng.random() < 0.3:
                kw["sigma"] = sg
            if nm is not None or rng.random() < 0.3:
                kw["name"] = nm
            sess.new_rating(mh, **kw)
            a = rng.choice([0, 0.0, -0.0, -3, 25.5, 1e-300, True, rng.uniform(-100, 100)])
            b = rng.choice([0, 0.0, 2, -1.5, 8.25, 1e300, False, rng.uniform(0, 50)])
            if nm is None:
                sess.create_rating(mh, [a, b])
            else:
                sess.create_rating(mh, [a, b], name=nm)
        # several players restored from ONE list object (a row kept by the caller), which the caller then goes on using
        row = [rng.choice([25.0, 20, 31.5]), rng.choice([8.0, 2, 25.0 / 3.0])]
        p1 = sess.create_rating(mh, row)
        p2 = sess.create_rating(mh, row, name="second")
        was = [sess.enc(q_) for q_ in (p1, p2)]
        row[0], row[1] = row[0] + 5.0, row[1] * 0.5               # the caller's list is the caller's
        p3 = sess.create_rating(mh, row)
        if None not in (p1, p2, p3):
            for q_, w_ in zip((p1, p2), was):
                sess.holds(q_, w_)                                 # what each object holds now against what it was given
            sess.rate(mh, [[p1], [p2], [p3]], ranks=[rng.randint(0, 2) for _r in range(3)])
            sess.predict("win", mh, [[p1, p2], [p3]])
        # ids do not come from anything the program controls: the global random generator re-seeded between constructions
        import random as _random
        st = _random.getstate()
        try:
            for _r in range(3):
                _random.seed(1234)
                sess.new_rating(mh, name="season")
                _random.seed(1234)
                sess.create_rating(mh, [25.0, 8.0])
            _random.seed(1234)
            sess.deepcopy([mh.m.rating(1.0, 2.0)])
        finally:
            _random.setstate(st)
        # pool of ratings with many equal ordinals
        pool = []
        for _p in range(6):
            if rng.random() < 0.7:
                pool.append(mh.m.rating(rng.choice(grid_mu), rng.choice(grid_sg), rng.choice(NAMES)))
            else:
                pool.append(mh.m.rating(rng.uniform(-50, 50), rng.uniform(0, 20)))
        if rng.random() < 0.5:
            pool.append(mh.m.rating(pool[0].mu, pool[0].sigma))
        foreign = [o.m.rating(pool[0].mu, pool[0].sigma) for o in others] + [3, 2.5, "x", None, (1, 2), [pool[0]]]
        for _q in range(10):
            a = rng.choice(pool)
            b = rng.choice(pool) if rng.random() < 0.7 else rng.choice(foreign)
            sess.compare(rng.choice(["lt", "le", "gt", "ge", "eq", "ne"]), a, b)
        # the same numbers written differently: ints and floats, the two zeros, a bool - equal as numbers, so equal ratings
        for (m1, s1, m2, s2) in [(30, 10, 30.0, 10.0), (0.0, 1.0, -0.0, 1.0), (25, 8.0, 25.0, 8), (1, 1, True, 1.0), (-3, 0, -3.0, -0.0),
                                 (2 ** 53, 2.0, float(2 ** 53), 2), (1e16, 5, 10 ** 16, 5.0)]:
            a, b = mh.m.rating(m1, s1), mh.m.rating(m2, s2)
            for cop in ("eq", "ne", rng.choice(["le", "ge", "lt", "gt"])):
                sess.compare(cop, a, b)
            sess.sort([b, a, mh.m.rating(m1, s1 + 1)])
        # operands that are not ratings but are made of the rating's own data: the forms a rating is stored or shown in
        a = rng.choice(pool)
        own_forms = [[a.mu, a.sigma], (a.mu, a.sigma), [a.mu, a.sigma, a.name], {"mu": a.mu, "sigma": a.sigma}, a.mu, a.sigma,
                     a.ordinal(), a.id, a.name, repr(a), str(a), [a], (a,), {a.mu, a.sigma}, float(a.mu) + 0.0, int(a.mu), True]
        for b in own_forms:
            sess.compare(rng.choice(["eq", "ne"]), a, b)
        for b in rng.sample(own_forms, 4):
            sess.compare(rng.choice(["lt", "le", "gt", "ge"]), a, b)
        for a in rng.sample(pool, 3):
            z = rng.choice([None, 3, 3.0, 0, 1, 2.5, -1, 10])
            if z is None:
                sess.ordinal(a)
            else:
                sess.ordinal(a, z=z)
        sess.sort(list(pool))
        # ask, edit the object in place, ask again (values chosen so that hashes of old and new values may collide)
        for (m1, m2) in [(-1.0, -2.0), (-1, -2), (rng.choice(grid_mu), rng.choice(grid_mu))]:
            a = mh.m.rating(m1, rng.choice([1.0, -1.0, 2.0]))
            b = mh.m.rating(0.5, 1.0)
            sess.ordinal(a)
            sess.compare("lt", a, b)
            sess.assign(a, m2, a.sigma)
            sess.ordinal(a)
            sess.compare(rng.choice(["lt", "le", "gt", "ge"]), a, b)
            sess.assign(a, a.mu, -2.0 if a.sigma == -1.0 else a.sigma + 0.5)      # sigma alone changes
            sess.compare(rng.choice(["lt", "le", "gt", "ge"]), a, b)
            sess.compare(rng.choice(["lt", "le", "gt", "ge"]), b, a)
            sess.assign(a, a.mu, a.sigma + 40.0)
            sess.compare("lt", a, b)
            sess.compare("gt", a, b)
            sess.ordinal(a, z=2)
            sess.ordinal(a)
            sess.sort([a, b, mh.m.rating(a.mu, a.sigma)])
            # after an edit the first question is asked with another z than the one asked before it
            sess.assign(a, a.mu - 7.0, a.sigma * 0.5)
            sess.ordinal(a, z=rng.choice([2, 1.0, 0]))
            sess.ordinal(a)
            sess.compare(rng.choice(["lt", "le", "gt", "ge"]), a, b)
            sess.assign(a, a.mu + 3.0, a.sigma)
            sess.ordinal(a, z=3.0)
            sess.ordinal(a, z=2)
            sess.sort([b, a, mh.m.rating(a.mu, a.sigma)])
        # copies - first of players nobody has looked at yet (not printed, hashed, compared or rated: nothing has read their id)
        for _f in range(2):
            sess.deepcopy(mh.m.rating(rng.choice(grid_mu), 2.0, rng.choice([None, "new"])), look="after")
            sess.deepcopy([[mh.m.rating(1.5, 2.0)], [mh.m.create_rating([3.0, 1.0])]], look="after")
        sess.deepcopy(pool[0])
        nested = [[pool[0], pool[1]], [pool[2]]]
        sess.deepcopy(nested)
        sess.deepcopy([nested, (pool[3], [pool[4]])])
        # a stored snapshot of a player (same id) beside the live player whose values have moved on
        snap = sess.deepcopy(pool[5])
        sess.assign(pool[5], pool[5].mu + 1.5, pool[5].sigma * 0.5 + 0.25)
        for cop in ("eq", "ne", "le", "lt"):
            sess.compare(cop, pool[5], snap)          # same id, different values
            sess.compare(cop, snap, pool[5])
        sess.deepcopy([[pool[5]], [snap]])
        sess.deepcopy([snap, pool[5], [pool[5], snap]])
        # the same comparisons on every class (C19: the five classes compare by the same rules)
        for _q in range(4):
            va = (rng.choice(grid_mu), rng.choice(grid_sg))
            vb = (rng.choice(grid_mu), rng.choice(grid_sg))
            if rng.random() < 0.5:   # equal ordinals, different (mu, sigma)
                d = rng.choice([0.5, 1.0, 1.5])
                vb = (va[0] + 3.0 * d, va[1] + d)
            cop = rng.choice(["lt", "le", "gt", "ge", "eq", "ne"])
            gid = GID.new("C19", "cmp")
            for i, m2 in enumerate([mh] + others):
                sess.compare(cop, m2.m.rating(*va), m2.m.rating(*vb), group=gid, role="same" if i else "base")
            # foreign operands, the same on every class - including one whose own __eq__ accepts anything
            fop = rng.choice([Permissive(), Permissive(), 3, "x", None, 2.5])
            cop = rng.choice(["eq", "ne", "eq", "lt"])
            gid = GID.new("C19", "cmpf")
            for i, m2 in enumerate([mh] + others):
                sess.compare(cop, m2.m.rating(*va), fop, group=gid, role="same" if i else "base")
        # the same structure copied on every class: a snapshot (same id) beside its live twin with other values
        import copy as _copy2
        gid = GID.new("C19", "copy")
        for i, m2 in enumerate([mh] + others):
            live_ = m2.m.rating(21.5, 4.25, "twin")
            live_.id = "c19-copy-twin-id"
            snap_ = _copy2.deepcopy(live_)
            live_.mu, live_.sigma = 23.0, 3.5
            sess.deepcopy([[snap_, live_], [live_, snap_], snap_], group=gid, role="same" if i else "base")
        # hashes: equal for equal (id, mu, sigma), across copies and classes
        gid = GID.new("C19", "hash")
        import copy as _copy
        a = pool[0]
        sess.hash(a, group=gid, role="base")
        sess.hash(_copy.deepcopy(a), group=gid, role="same")
        for o in others:
            r = o.m.rating(a.mu, a.sigma, "other")
            r.id = a.id
            sess.hash(r, group=gid, role="same")


def restore_groups(sess, rng, count, kinds=KINDS, games=6):
    """C20: twin leagues - live objects versus players rebuilt from stored (mu, sigma) before every game."""
    for _ in range(count):
        kind = rng.choice(kinds)
        params, g, beta = pick_model_params(rng, kind, simple=rng.random() < 0.6)
        sess.reset()
        mh = sess.model(kind, gamma=g, **params)
        npl = rng.randint(4, 8)
        live = [mh.m.rating(pick_mu(rng, beta), pick_sigma(rng, beta), "p%d" % i) for i in range(npl)]
        store = [(p.mu, p.sigma) for p in live]
        for _g in range(games):
            k = rng.randint(2, min(4, npl))
            idx = rng.sample(range(npl), k)
            split = [[i] for i in idx]
            okw, _ = encode_order(rng, weak_order(rng, k))
            how = rng.choice(["create", "rating", "deepcopy"])
            op = rng.choice(["rate", "rate", "win", "draw", "rank"])
            gid = GID.new("C20", "twin")
            lt = [[live[i] for i in t] for t in split]
            if how == "create":
                rt = [[mh.m.create_rating([store[i][0], store[i][1]]) for i in t] for t in split]
            elif how == "rating":
                rt = [[mh.m.rating(store[i][0], store[i][1], "restored") for i in t] for t in split]
            else:
                import copy as _copy
                rt = _copy.deepcopy(lt)
            if op == "rate" and rng.random() < 0.25:
                # mirror match: a team against an id-preserving deep copy of itself, and the same game with rebuilt players
                import copy as _copy
                g2 = GID.new("C20", "mirror")
                a_live = [[_copy.deepcopy(live[i]) for i in split[0]]]
                mirror = a_live + _copy.deepcopy(a_live)
                if rng.random() < 0.7:          # the snapshot and its twin have drifted apart (same ids, other values)
                    for p in mirror[1]:
                        sess.assign(p, p.mu + rng.choice([-1.0, 0.5]) * beta, p.sigma * rng.choice([0.25, 0.5, 2.0]))
                rebuilt = [[mh.m.create_rating([p.mu, p.sigma]) for p in t] for t in mirror]
                mk, _ = encode_order(rng, weak_order(rng, 2))
                if rng.random() < 0.6:
                    mk["limit_sigma"] = True
                    mk["tau"] = beta * rng.choice([0.5, 1.0])
                sess.rate(mh, rebuilt, group=g2, role="base", **mk)
                sess.rate(mh, mirror, group=g2, role="same", **mk)
            if op == "rate":
                out1 = sess.rate(mh, lt, group=gid, role="base", **okw)
                out2 = sess.rate(mh, rt, group=gid, role="same", **okw)
                for t, o in zip(split, out2):
                    for i, p in zip(t, o):
                        store[i] = (p.mu, p.sigma)
                for t, o in zip(split, out1):
                    for i, p in zip(t, o):
                        live[i] = p
            else:
                sess.predict(op, mh, lt, group=gid, role="base")
                sess.predict(op, mh, rt, group=gid, role="same")


# ============================================================================= malformed calls (C13)
class _Opaque:
    pass


def bad_values(mh, foreign_mh, own):
    """Values substituted at every position of an otherwise valid call.  The specification,
    not this list, decides which substitutions make the call malformed."""
    return [
        ("none", None), ("int", 3), ("float", 2.5), ("str", "abc"), ("tuple", (1, 2)), ("dict", {"a": 1}),
        ("set", {1}), ("obj", _Opaque()), ("empty_list", []), ("nested_list", [[1], [2]]),
        ("foreign", foreign_mh.m.rating(20.0, 5.0)), ("own_rating", own), ("list_of_rating", [mh.m.rating(21.0, 4.0)]),
        ("true", True), ("neg", -2), ("zero_f", -0.0),
        ("numstr", "2"), ("numstr_f", "7.5"), ("bytes", b"4"),
        # text that means something to a formatter, a parser or a path: an error message built from the value must not change the error
        ("fmt_field", "{0}"), ("fmt_name", "{rank}"), ("fmt_empty", "{}"), ("fmt_percent", "%s %(x)d"), ("fmt_brace", "a{b"),
        ("empty_str", ""), ("nan_str", "nan"), ("newline_str", "x\ny"), ("nul_str", "\x00"), ("unicode_str", "\u00e9\u4e2d\U0001F600"),
        ("long_str", "r" * 5000),
    ]


def numlike_values(twin):
    """Objects that compare (and hash) equal to the number twin but are neither int nor float."""
    import decimal
    import fractions
    return [("decimal", decimal.Decimal(twin)), ("fraction", fractions.Fraction(twin)), ("complex", complex(twin, 0.0))]


def _subst(container, path, value):
    """Copy of nested lists with the element at path replaced (path () replaces the whole)."""
    if not path:
        return value
    c = list(container)
    c[path[0]] = _subst(container[path[0]], path[1:], value)
    return c


def malformed_campaign(sess, rng, count, kinds=KINDS, ops=("rate", "win", "draw", "rank")):
    """count base games; every bad value at every position of teams / ranks / scores, wrong lengths,
    too few teams, empty teams, both selectors; plus unusual well-formed selectors."""
    for _ in range(count):
        kind = rng.choice(kinds)
        foreign_kind = rng.choice([k for k in KINDS if k != kind])
        params, g, beta = pick_model_params(rng, kind, simple=True)
        params.setdefault("tau", beta / 50.0)
        if params["tau"] == 0.0:
            params["tau"] = beta / 50.0
        params["limit_sigma"] = (_ % 2 == 1)      # what a call does before it has looked at its arguments depends on the options
        shape = pick_shape(rng, 4, 2)
        n = len(shape)
        vals = random_vals(rng, shape, beta)

        def fresh():
            sess.reset()
            mh = sess.model(kind, gamma=g, **params)
            fm = sess.model(foreign_kind)
            teams = make_teams(mh, vals, rng)
            return mh, fm, teams

        team_paths = [()] + [(i,) for i in range(n)] + [(i, j) for i in range(n) for j in range(shape[i])]
        sel_paths = [()] + [(i,) for i in range(n)]
        ranks0 = [rng.randint(0, 3) for _ in range(n)]
        nb = len(bad_values(*((lambda a: (a[0], a[1], a[2][0][0]))(fresh()))))
        for op in ops:
            for path in team_paths:
                for b in range(nb):
                    mh, fm, teams = fresh()
                    name, val = bad_values(mh, fm, teams[0][0])[b]
                    t2 = _subst(teams, path, val)
                    if op == "rate":
                        kw = {"ranks": list(ranks0)} if rng.random() < 0.5 else {}
                        if b % 3 == 0:
                            kw["limit_sigma"] = True
                        elif b % 7 == 0:
                            kw["tau"] = 0.5 * beta
                        sess.rate(mh, t2, **kw)
                    else:
                        sess.predict(op, mh, t2)
            # structural: too few teams, an empty team
            for variant in ["one_team", "no_team", "empty_team", "empty_first", "empty_then_tuple", "tuple_then_empty", "empty_then_none_mid",
                            "empty_then_foreign", "foreign_then_empty", "flat", "flat_tuple", "all_tuples", "all_foreign", "all_none", "all_numbers",
                            "deeper", "dict_of_teams", "generator"]:
                mh, fm, teams = fresh()
                flat = [p for t in teams for p in t]
                t2 = {"flat": flat, "flat_tuple": tuple(flat), "all_tuples": [tuple(t) for t in teams],
                      "all_foreign": [[fm.m.rating(20.0 + i, 5.0)] for i in range(len(teams))], "all_none": [None] * len(teams),
                      "all_numbers": [float(i) for i in range(len(teams))], "deeper": [[t] for t in teams],
                      "dict_of_teams": {i: t for i, t in enumerate(teams)}, "generator": (t for t in teams),
                      "one_team": teams[:1], "no_team": [], "empty_team": teams[:-1] + [[]], "empty_first": [[]] + teams[1:],
                      "empty_then_tuple": [[], tuple(teams[1])] + teams[2:], "tuple_then_empty": [tuple(teams[0]), []] + teams[2:],
                      "empty_then_none_mid": [teams[0], [], None] + teams[1:],
                      "empty_then_foreign": [[], [fm.m.rating(20.0, 5.0)]] + teams[2:],
                      "foreign_then_empty": [[fm.m.rating(20.0, 5.0)], []] + teams[2:]}[variant]
                if op == "rate":
                    sess.rate(mh, t2)
                else:
                    sess.predict(op, mh, t2)
        for sel in ("ranks", "scores"):
            for path in sel_paths:
                for b in range(nb):
                    mh, fm, teams = fresh()
                    name, val = bad_values(mh, fm, teams[0][0])[b]
                    if name in ("none", "empty_list") and path == ():
                        pass  # omitted selector: the specification treats it as not given
                    if path == () and name in ("str", "tuple", "dict", "set", "int", "float", "true", "obj", "foreign", "own_rating", "neg"):
                        pass  # truthy non-lists: malformed
                    if path == () and name in ("zero_f", "empty_str"):
                        continue  # falsy non-list selectors are not specified (DESIGN 6/C13)
                    s2 = _subst(list(ranks0), path, val)
                    sess.rate(mh, teams, **{sel: s2})
            # a non-number that equals a number elsewhere in the same list (before and after its twin)
            for i in range(n):
                for jtwin in range(n):
                    if jtwin == i:
                        continue
                    for k3 in range(3):
                        mh, fm, teams = fresh()
                        s2 = list(ranks0)
                        s2[i] = numlike_values(ranks0[jtwin])[k3][1]
                        sess.rate(mh, teams, **{sel: s2})
            for variant in ["short", "long", "both", "both_bad", "bools", "negs", "zeros", "floats", "mixed",
                            "other_empty", "other_none", "both_empty", "other_empty_self_bad", "self_empty_other_bad"]:
                mh, fm, teams = fresh()
                other = "scores" if sel == "ranks" else "ranks"
                if variant == "other_empty":        # an empty list is "not given": beside a given selector ...
                    kw = {sel: list(ranks0), other: []}
                elif variant == "other_none":
                    kw = {sel: list(ranks0), other: None}
                elif variant == "both_empty":       # ... beside another empty one ...
                    kw = {sel: [], other: []}
                elif variant == "other_empty_self_bad":   # ... and it does not excuse the other selector's faults
                    kw = {sel: list(ranks0) + ["x"], other: []}
                elif variant == "self_empty_other_bad":
                    kw = {sel: [], other: (1, 2)}
                elif variant == "short":
                    kw = {sel: list(ranks0)[:-1]}
                elif variant == "long":
                    kw = {sel: list(ranks0) + [1]}
                elif variant == "both":
                    kw = {"ranks": list(ranks0), "scores": list(ranks0)}
                elif variant == "both_bad":
                    kw = {"ranks": list(ranks0), "scores": "abc"}
                elif variant == "bools":
                    kw = {sel: [bool(i % 2) for i in range(n)]}
                elif variant == "negs":
                    kw = {sel: [-(i + 1) for i in range(n)]}
                elif variant == "zeros":
                    kw = {sel: [0 if i % 2 else -0.0 for i in range(n)]}
                elif variant == "floats":
                    kw = {sel: [i * 0.5 - 1.0 for i in range(n)]}
                else:
                    kw = {sel: [(i if i % 2 else float(i)) for i in range(n)]}
                sess.rate(mh, teams, **kw)
        # malformed per-call options are not part of C13 (tau / limit_sigma are not validated by the library)


def damaged_in_place(sess, rng, kinds=KINDS, ops=("rate", "win", "draw", "rank")):
    """A game accepted once and then damaged in place: the very same list object is passed again to the same model
    (validation is per call, whatever the model has seen before)."""
    for kind in kinds:
        foreign_kind = rng.choice([k for k in KINDS if k != kind])
        params, g, beta = pick_model_params(rng, kind, simple=True)
        if params.get("tau", 1.0) == 0.0:
            params["tau"] = beta / 50.0
        for op in ops:
            for damage in ["foreign_appended", "team_to_tuple", "popped_to_one", "team_emptied", "none_appended", "player_to_number"]:
                shape = pick_shape(rng, 4, 2)
                n = len(shape)
                sess.reset()
                mh = sess.model(kind, gamma=g, **params)
                fm = sess.model(foreign_kind)
                teams = make_teams(mh, random_vals(rng, shape, beta), rng)
                first = rng.choice([op, op, "win", "rank"]) if op != "rate" else rng.choice(["win", "draw", "rank"])
                sess.predict(first, mh, teams)
                if damage == "foreign_appended":
                    teams[rng.randrange(n)].append(fm.m.rating(20.0, 5.0))
                elif damage == "team_to_tuple":
                    k = rng.randrange(n)
                    teams[k] = tuple(teams[k])
                elif damage == "popped_to_one":
                    del teams[1:]
                elif damage == "team_emptied":
                    del teams[rng.randrange(n)][:]
                elif damage == "none_appended":
                    teams.append(None)
                else:
                    teams[rng.randrange(n)][0] = 25.0
                if op == "rate":
                    sess.rate(mh, teams)
                else:
                    sess.predict(op, mh, teams)


def saturated_tie_perms(sess, rng, prop, ops, kinds=KINDS):
    """Three teams: a leader far ahead (beyond where the normal tail underflows) of two teams with exactly the same total
    mu, one narrow and one wide - in all six orders.  Sorting, short cuts and early exits on the saturated pair show here."""
    import itertools
    for kind in kinds:
        for gap in (16.0, 20.0, 40.0):
            for s_small in (1e-4, 0.1):
                for s_wide in (3.0, 10.0):
                    params, g, beta = pick_model_params(rng, kind, simple=True)
                    sess.reset()
                    mh = sess.model(kind, gamma=g, **params)
                    lo = beta * rng.choice([-20.0, -10.0, 0.0])
                    hi = min(lo + gap * beta, 20.0 * beta)
                    if rng.random() < 0.5:
                        vals = [[(hi, s_small * beta)], [(lo, s_small * beta)], [(lo, s_wide * beta)]]
                    else:       # the same totals reached by two players
                        vals = [[(hi / 2, s_small * beta), (hi / 2, s_small * beta)], [(lo / 2, s_small * beta), (lo / 2, s_small * beta)],
                                [(lo / 2, s_wide * beta), (lo / 2, s_small * beta)]]
                    for op in ops:
                        gid = GID.new(prop)
                        sess.predict(op, mh, make_teams(mh, vals), group=gid, role="base")
                        for tp in itertools.permutations(range(1, 4)):
                            pv = [vals[tp[k] - 1] for k in range(3)]
                            aux = [list(tp), [list(range(1, len(t) + 1)) for t in pv]]
                            sess.predict(op, mh, make_teams(mh, pv), group=gid, role="perm", aux=aux)


def integer_grid(sess, rng, ops, kinds=KINDS):
    """Every three-team game whose team totals are small whole numbers, negative ones included (ratings kept as round
    numbers are common, and whole numbers are where hashing, `is`, int/float and sign conventions have their special cases)."""
    import itertools
    grid = [-2.0, -1.0, 0.0, 1.0, 3.0]
    for kind in kinds:
        sess.reset()
        mh = sess.model(kind)
        sg = rng.choice([1.0, 2.0, 0.5])
        for k, tri in enumerate(itertools.product(grid, repeat=3)):
            if k % 25 == 0:
                sess.reset()
                mh = sess.model(kind)
            if rng.random() < 0.3:      # the same totals from two members
                vals = [[(m - 1.0, sg), (1.0, sg)] for m in tri]
            else:
                vals = [[(int(m) if rng.random() < 0.3 else m, sg)] for m in tri]
            teams = make_teams(mh, vals)
            for op in ops:
                sess.predict(op, mh, teams)


def ordinal_tie_grid(sess, rng, ops, kinds=KINDS):
    """Stratified: for every model, games whose players have ordinals mu - 3 sigma equal to the last bit while (mu, sigma) differ -
    1v1, 2v2 (each team a pair of twins), three singles, and twins as team mates facing an ordinary team - in both listings.
    Ratings order by the ordinal and are equal by (mu, sigma): min / max / sorted / == on rating objects part ways exactly here."""
    twins = [[(30.0, 10.0), (15.0, 5.0)], [(30.0, 6.0), (18.0, 2.0)], [(25.0, 5.0), (28.0, 6.0)], [(0.0, 1.0), (3.0, 2.0), (-1.5, 0.5)]]
    for kind in kinds:
        sess.reset()
        mh = sess.model(kind)
        for tw in twins:
            games = [[[tw[0]], [tw[1]]], [[tw[1]], [tw[0]]], [[tw[0], tw[1]], [(20.0, 4.0), (22.0, 3.0)]], [[(20.0, 4.0)], [tw[1], tw[0]]]]
            if len(tw) >= 3:
                games.append([[tw[0]], [tw[1]], [tw[2]]])
                games.append([[tw[2], tw[0], tw[1]], [(1.0, 1.0)]])
            else:
                games.append([[tw[0]], [(24.0, 7.0)], [tw[1]]])
            for vals in games:
                for op in ops:
                    if op == "rate":
                        sess.rate(mh, make_teams(mh, vals), ranks=random_perm(rng, len(vals)))
                    else:
                        sess.predict(op, mh, make_teams(mh, vals))


def integer_grid_rate(sess, rng, kinds=KINDS):
    """rate on every three-team game whose team totals are small whole numbers (see integer_grid), under a random outcome."""
    import itertools
    grid = [-2.0, -1.0, 0.0, 1.0, 3.0]
    for kind in kinds:
        for k, tri in enumerate(itertools.product(grid, repeat=3)):
            if k % 25 == 0:
                sess.reset()
                mh = sess.model(kind, tau=rng.choice([0.0, 25.0 / 300.0, 1.0]))
            sg = rng.choice([1.0, 2.0, 0.5])
            if rng.random() < 0.3:
                vals = [[(m - 1.0, sg), (1.0, sg)] for m in tri]
            else:
                vals = [[(int(m) if rng.random() < 0.3 else m, sg)] for m in tri]
            okw, _ = encode_order(rng, weak_order(rng, 3))
            sess.rate(mh, make_teams(mh, vals), **okw)


def api_groups(sess):
    """C19: the five classes expose the same operations with the same signatures."""
    sess.reset()
    mhs = [sess.model(k) for k in KINDS]
    for what in ("model", "rating"):
        gid = GID.new("C19", "api")
        for i, mh in enumerate(mhs):
            sess.api(mh, what, group=gid, role="same" if i else "base")


# ============================================================================= kernels (C17)
def _bisect_switch(pred, lo, hi, iters=200):
    """Largest-resolution boundary between pred(lo) and pred(hi) (which must differ); returns (a, b) adjacent doubles."""
    pl = pred(lo)
    if pred(hi) == pl:
        return None
    for _ in range(iters):
        mid = 0.5 * (lo + hi)
        if mid == lo or mid == hi:
            break
        if pred(mid) == pl:
            lo = mid
        else:
            hi = mid
    return lo, hi


def _ulp_neighbours(x, ks=(0, 1, 2, 3, 5, 8, 16, 32, 64)):
    out = []
    for k in ks:
        a = b = x
        for _ in range(k):
            a = math.nextafter(a, -math.inf)
            b = math.nextafter(b, math.inf)
        out += [a, b]
    return sorted(set(out))


def kernel_sweep(sess, rng, step, nts, randoms):
    """x over [-40, 40] with the given step, t over nts log-spaced values in [1e-8, 1e-2], plus random points,
    ulp-neighbourhoods of every branch threshold (located on the implementation's observable switch), huge |x|."""
    import openskill.models.weng_lin.common as wl

    ts = [10 ** (-8 + 6 * i / (nts - 1)) for i in range(nts)]
    if 1e-5 not in ts:
        ts.append(1e-5)
    nx = int(round(80 / step))
    xs = [-40 + i * step for i in range(nx + 1)]
    sess.reset()
    count = 0

    def emit(name, x, t=None):
        nonlocal count
        sess.kernel(name, x, t)
        count += 1
        if count % 400 == 0:
            sess.reset()

    for x in [-37.5 + i * step for i in range(int(round(75.5 / step)) + 1)]:
        emit("phi_major", x)
    for x in [-37.5, 38.0, -37.49999, 0.0, -0.0, 1e-300, -1e-300, -8.2, -8.3, 8.3]:
        emit("phi_major", x)
    for t in ts:
        for x in xs:
            for name in ("v", "w", "vt", "wt"):
                emit(name, x, t)
        # thresholds of this t, found on the implementation itself
        th = []
        r = _bisect_switch(lambda x: type(wl.w(x, t)) is int, -12.0, -5.0)
        if r:
            th.append(("w", r))
        r = _bisect_switch(lambda x: wl.v(x, t) == -(x - t), -12.0, -5.0)
        if r:
            th.append(("v", r))
        r = _bisect_switch(lambda x: wl.vt(x, t) == -x + t, 0.0, 12.0)
        if r:
            th.append(("vt", r))
        r = _bisect_switch(lambda x: wl.wt(x, t) == 1.0 and wl.wt(math.nextafter(x, math.inf), t) == 1.0, 1.0, 12.0)
        if r:
            th.append(("wt", r))
        for name, (a, b) in th:
            for x in _ulp_neighbours(a) + _ulp_neighbours(b):
                emit(name, x, t)
                if name in ("vt", "wt"):
                    emit(name, -x, t)
    for _ in range(randoms):
        t = 10 ** rng.uniform(-8, -2)
        r = rng.random()
        x = rng.uniform(-40, 40) if r < 0.6 else rng.uniform(-9, -5) if r < 0.8 else rng.gauss(0, 1e-3) if r < 0.9 else rng.uniform(-1, 1) * t * 3
        emit(rng.choice(["v", "w", "vt", "wt"]), x, t)
    # call patterns as the models produce them: the same |x| with both signs and the same t back to back, repeated calls,
    # interleaved functions - a value must not depend on what was evaluated before
    for _ in range(randoms // 6):
        t = 10 ** rng.uniform(-8, -2)
        x = rng.choice([rng.uniform(-9, 9), rng.uniform(-3, 3), rng.uniform(-40, 40)])
        names = [rng.choice(["v", "w", "vt", "wt"]) for _k in range(2)]
        for name in names:
            emit(name, x, t)
            emit(name, -x, t)
            emit(name, x, t)
        emit("vt", x, t)
        emit("wt", -x, t)
        emit("vt", -x, t)
        emit("wt", x, t)
    for x in [1e3, -1e3, 1e10, -1e10, 1e154, -1e154, 1e300, -1e300, 1.7e308, -1.7e308, 5e-324, -5e-324, 0.0, -0.0]:
        for t in (1e-8, 1e-5, 1e-2):
            for name in ("v", "w", "vt", "wt"):
                emit(name, x, t)


# ============================================================================= leagues (histories)
def league(sess, rng, kind, nplayers, games, predictions=True, twin=False, prop="C20"):
    """One league: persistent rating objects, random matchmaking and outcomes, ratings fed back in place.
    Predictions are made on the live objects before games; with twin=True every call is repeated on
    players rebuilt from their stored (mu, sigma) and grouped as 'same'."""
    import copy as _copy

    params, g, beta = pick_model_params(rng, kind, simple=rng.random() < 0.6)
    sess.reset()
    mh = sess.model(kind, gamma=g, **params)
    tau_pos = mh.m.tau > 0
    live = [mh.m.rating(pick_mu(rng, beta), max(pick_sigma(rng, beta), 1e-4 * beta), "p%d" % i) for i in range(nplayers)]
    for _g in range(games):
        n = rng.choice([2, 2, 3, 3, 4, 5])
        size = rng.choice([1, 1, 1, 2, 3])
        need = n * size
        if need > nplayers:
            n, size = 2, 1
            need = 2
        idx = rng.sample(range(nplayers), need)
        split = [idx[i * size:(i + 1) * size] for i in range(n)]
        teams = [[live[i] for i in t] for t in split]
        okw, _ = encode_order(rng, weak_order(rng, n))
        kw = dict(okw)
        if rng.random() < 0.15:
            kw["limit_sigma"] = rng.random() < 0.5
        if rng.random() < 0.15:
            kw["tau"] = rng.choice([0, beta / 50.0, beta / 5.0])
        if kw.get("tau", mh.m.tau) == 0 and any(p.sigma < 1e-4 * beta for t in teams for p in t):
            kw.pop("tau", None)

        def rebuilt():
            how = rng.choice(["create", "rating", "deepcopy"])
            if how == "create":
                return [[mh.m.create_rating([p.mu, p.sigma]) for p in t] for t in teams]
            if how == "rating":
                return [[mh.m.rating(p.mu, p.sigma, "restored") for p in t] for t in teams]
            return _copy.deepcopy(teams)

        if predictions and rng.random() < 0.7:
            for op in rng.sample(["win", "draw", "rank"], rng.randint(1, 3)):
                if twin:
                    gid = GID.new(prop, "league")
                    sess.predict(op, mh, teams, group=gid, role="base")
                    sess.predict(op, mh, rebuilt(), group=gid, role="same")
                else:
                    sess.predict(op, mh, teams)
        if nplayers >= 8 and rng.random() < 0.08:
            # a newcomer (sigma 9-10 beta) loses to seven settled players: the kappa floor binds under the default gamma
            # for PL and full pairing; the caller's own assignments prepare the line-up (recorded as `assign`)
            idx = rng.sample(range(nplayers), 8)
            mu0 = live[idx[0]].mu
            for i in idx[:7]:
                sess.assign(live[i], mu0, beta * rng.choice([0.01, 0.05, 0.2]))
            sess.assign(live[idx[7]], mu0, beta * rng.uniform(9.0, 10.0))
            teams = [[live[i]] for i in idx]
            kw = {k: v for k, v in kw.items() if k in ("tau", "limit_sigma")}
            kw["ranks"] = list(range(8))
        if twin:
            gid = GID.new(prop, "league")
            rb = rebuilt()
            sess.rate(mh, rb, group=gid, role="base", **kw)      # rebuilt first: the live objects change in place
            sess.rate(mh, teams, group=gid, role="same", **kw)
            if predictions and rng.random() < 0.5:
                # the objects just updated in place against players rebuilt from what they now hold
                gid = GID.new(prop, "league")
                op = rng.choice(["win", "draw", "rank"])
                sess.predict(op, mh, rebuilt(), group=gid, role="base")
                sess.predict(op, mh, teams, group=gid, role="same")
        else:
            sess.rate(mh, teams, **kw)
            if predictions and rng.random() < 0.5:
                # the same list object again, its ratings just updated in place
                sess.predict(rng.choice(["win", "draw", "rank"]), mh, teams)


def leagues(sess, rng, count, nplayers, games, kinds=KINDS, **kw):
    for i in range(count):
        league(sess, rng, kinds[i % len(kinds)], nplayers, games, **kw)


# ============================================================================= threads (C14)
def thread_executions(sess, rng, count, thread_log, kinds=KINDS, nthreads=(2, 2, 3), exhaustive_pairs=None):
    """count executions of 2-3 concurrent calls on one shared model under chosen schedules
    (<= 2 pre-emptions for two threads, random segments for three, some free running)."""
    import sched as _sched

    x = 0
    for _ in range(count):
        kind = rng.choice(kinds)
        params, g, beta = pick_model_params(rng, kind, simple=True)
        if rng.random() < 0.5:
            params["tau"] = beta            # large tau: posterior sigma above the prior, the clamp matters
        nt = rng.choice(nthreads)
        calls = []
        for t in range(nt):
            shape = pick_shape(rng, 3, 2)
            vals = random_vals(rng, shape, beta, False)
            vals = [[(mu, min(sg, beta)) for (mu, sg) in tv] for tv in vals]
            op = rng.choice(["rate", "rate", "rate", "win", "draw", "rank"])
            kw = {}
            if op == "rate":
                kw, _ = encode_order(rng, weak_order(rng, len(shape)))
                r = rng.random()
                if r < 0.35:
                    kw["limit_sigma"] = True
                elif r < 0.6:
                    kw["limit_sigma"] = False
                if rng.random() < 0.3:
                    kw["tau"] = rng.choice([0, beta / 2, beta])
            calls.append({"op": op, "vals": vals, "kw": kw})
        if exhaustive_pairs and nt == 2:
            plans = [[(0, a), (1, b), (0, None), (1, None)] for (a, b) in exhaustive_pairs]
        else:
            r = rng.random()
            if r < 0.15:
                plans = [None]
            elif nt == 2:
                plans = [[(0, rng.randint(0, 30)), (1, rng.randint(0, 30)), (0, None), (1, None)] for _k in range(3)]
                plans.append([(1, rng.randint(0, 30)), (0, rng.randint(0, 30)), (1, None), (0, None)])
            else:
                plans = []
                for _k in range(3):
                    segs = [(rng.randrange(nt), rng.randint(1, 12)) for _s in range(8)]
                    plans.append(segs + [(t, None) for t in range(nt)])
        for plan in plans:
            x += 1
            _sched.run_execution(sess, x, kind, params, g, calls, plan, thread_log)


def thread_executions_fine(sess, rng, count, thread_log, kinds=("TMF", "TMP", "PL", "BTF", "BTP"), stride=1, xbase=100000):
    """Two concurrent calls pre-empted at EVERY Python function call inside the library (sys.settrace), not only at
    model accesses: thread 0 runs k yield points, thread 1 runs to completion, thread 0 resumes - for every k.
    Reaches shared locations other than the model object (module or class level state)."""
    import sched as _sched

    x = xbase
    for ci in range(count):
        kind = kinds[ci % len(kinds)]
        params, g, beta = pick_model_params(rng, kind, simple=True)
        params["tau"] = beta / 3.0
        calls = []
        for t in range(2):
            shape = [rng.randint(1, 2), rng.randint(1, 2)] + ([1] if rng.random() < 0.4 else [])
            vals = random_vals(rng, shape, beta, False)
            vals = [[(mu, min(sg, 2 * beta)) for (mu, sg) in tv] for tv in vals]
            n = len(shape)
            style = ci % 3
            if style == 0:
                # ties: the draw kernels (in both calls for the first cases: whatever one call's tie leaves behind for the other's)
                ranks = [0] * n if (ci < 6 or rng.random() < 0.6) else weak_order(rng, n)
                kw = {"ranks": ranks}
            else:
                # strict outcomes that sort the two games differently (whatever one call leaves behind for the sort,
                # the pairing or the un-sorting is wrong for the other)
                order = list(range(n))
                tries = 0
                while order == sorted(order) or (tries < 40 and t == 1 and n == len(calls[0]["kw"].get("ranks", calls[0]["kw"].get("scores"))) and
                                                 order == [int(v) for v in calls[0]["kw"].get("ranks", calls[0]["kw"].get("scores"))]):
                    rng.shuffle(order)
                    tries += 1      # (two two-team games have only one unsorted order: then both sort alike)
                kw = {"ranks": [float(v) for v in order]} if style == 1 else {"scores": [float(v) for v in order]}
            if rng.random() < 0.3:
                kw["limit_sigma"] = True
            calls.append({"op": "rate", "vals": vals, "kw": kw})
        if ci % 4 == 3:
            # both callers pass one and the same outcome list object (not yet in any canonical form: gaps, floats, unsorted)
            n0 = len(calls[0]["vals"])
            shared = [float(v) for v in rng.sample([7, 3, 11, 5][:max(n0, 2)] + [9], n0)]
            sel = "ranks" if ci % 8 == 3 else "scores"
            calls[1]["vals"] = calls[1]["vals"][:n0] if len(calls[1]["vals"]) >= n0 else calls[1]["vals"] + calls[0]["vals"][len(calls[1]["vals"]):n0]
            for c in calls:
                c["kw"] = {k: v for k, v in c["kw"].items() if k not in ("ranks", "scores")}
                c["kw"][sel] = list(shared)
            calls[1]["share"] = 0
        # how many yield points does thread 0 have?  (dry run, thread 0 alone first)
        counter = [0]
        x += 1
        _sched.run_execution(sess, x, kind, params, g, calls, [(0, None), (1, None)], thread_log, fine=True, counter=counter)
        total = counter[0] + 40
        for k in range(0, total, stride):
            x += 1
            _sched.run_execution(sess, x, kind, params, g, calls, [(0, k), (1, None), (0, None)], thread_log, fine=True)


def known_finding_witnesses(sess):
    """The specific inputs of the findings listed in known_findings.json, so that every run meets them."""
    for kind, sw in (("TMP", 3.0), ("BTP", 0.5)):
        sess.reset()
        mh = sess.model(kind)
        teams = [[mh.m.rating(40.0, 3.0)], [mh.m.rating(40.0, 3.0)], [mh.m.rating(10.0, sw)]]
        sess.rate(mh, teams, ranks=[3, 2, 1])


def foreign_pairs(sess, rng):
    """Every ordered pair (host model, foreign model): a foreign rating in a player slot, four operations."""
    for host in KINDS:
        for foreign in KINDS:
            if foreign == host:
                continue
            for op in ("rate", "win", "draw", "rank"):
                sess.reset()
                mh = sess.model(host)
                fm = sess.model(foreign)
                teams = [[mh.m.rating(25.0, 8.0)], [mh.m.rating(30.0, 4.0), fm.m.rating(20.0, 5.0)]]
                if rng.random() < 0.5:
                    teams = [[fm.m.rating(20.0, 5.0)], [mh.m.rating(30.0, 4.0)]]
                if op == "rate":
                    sess.rate(mh, teams)
                else:
                    sess.predict(op, mh, teams)


def tm_regimes(sess, rng, count, kinds=("TMF", "TMP", "BTF", "BTP", "PL")):
    """Stratified over the kernel regimes: two- and three-team games whose mismatch (mu_i - mu_q) / c_iq is drawn
    uniformly from [0, 9.5] (around and beyond every guard), under win, loss and draw, several kappa."""
    for ci in range(count):
        kind = kinds[ci % len(kinds)] if rng.random() < 0.4 else rng.choice(["TMF", "TMP"])
        beta = BETA0 * rng.choice([1.0, 1.0, 0.1, 10.0])
        kappa = rng.choice([1e-4, 1e-4, 1e-3, 1e-2, 1e-6])
        if kind in ("TMF", "TMP"):
            kappa = min(kappa, 1e-2 * math.sqrt(2.0) * beta)
        tau = rng.choice([0.0, beta / 50.0])
        sess.reset()
        mh = sess.model(kind, mu=6 * beta, sigma=2 * beta, beta=beta, kappa=kappa, tau=tau, limit_sigma=rng.random() < 0.15)
        x = rng.uniform(0.0, 9.5)
        s1 = [rng.uniform(0.05, 1.5) * beta for _ in range(rng.choice([1, 1, 2]))]
        s2 = [rng.uniform(0.05, 1.5) * beta for _ in range(rng.choice([1, 1, 2]))]
        c = math.sqrt(sum(s * s + tau * tau for s in s1) + sum(s * s + tau * tau for s in s2) + 2 * beta * beta)
        if kind == "TMP":
            c *= 2.0
        gap = x * c
        if gap > 38 * beta:
            gap = 38 * beta
        base1 = rng.uniform(-19 * beta, 19 * beta - gap)
        m1 = [(base1 + gap) / len(s1)] * len(s1)
        m2 = [base1 / len(s2)] * len(s2)
        if any(abs(m) > 20 * beta for m in m1 + m2):
            m1 = [m / 2 for m in m1]
            m2 = [m / 2 for m in m2]
        t1 = [mh.m.rating(m, s) for m, s in zip(m1, s1)]
        t2 = [mh.m.rating(m, s) for m, s in zip(m2, s2)]
        teams = [t1, t2]
        if rng.random() < 0.3:
            teams.append([mh.m.rating(rng.uniform(-10, 10) * beta, rng.uniform(0.1, 2) * beta)])
        n = len(teams)
        outcome = rng.choice(["win", "loss", "draw", "draw"])
        ranks = {"win": [0, 1], "loss": [1, 0], "draw": [0, 0]}[outcome] + ([rng.choice([0, 1, 2])] if n == 3 else [])
        if rng.random() < 0.5:
            teams = teams[::-1]
            ranks = ranks[::-1]
        sess.rate(mh, teams, ranks=ranks)
