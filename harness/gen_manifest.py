"""Writes MANIFEST.json from the table below (keeps the file valid and in step with plans.py)."""
import json
import os
import sys

HERE = os.path.dirname(os.path.abspath(__file__))
VERIF = os.path.dirname(HERE)

TRUST = ("TLC 1.8.0 and its module-override loader; spec/HPReal.java (BigDecimal real arithmetic, self-tested against mpmath); "
         "the projection harness/project.py; the transcription of Weng & Lin's rules in spec/Update.tla")

CHECKS = {}
NOT_YET = {}


def check(pid, text, technique, note=TRUST, ref=None):
    CHECKS[pid] = dict(text=text, technique=technique, note=note, ref=ref or ("6/" + pid))


exec(open(os.path.join(HERE, "manifest_table.py")).read())

props = [json.loads(l)["id"] for l in open(os.path.join(VERIF, "properties.jsonl"))]
man = {
    "version": 1,
    "setup_cmd": "cd /verif && ./setup.sh",
    "hooks": {
        "guard": "OPENSKILL_VERIF",
        "enable": "no source hooks are needed: every piece of abstract state is a public attribute read by harness/project.py at call return; the thread clause of C14 instruments the model by subclassing inside the harness",
        "baseline_off_cmd": "cd /repo && /venv/bin/python -m pytest -ra -q -p no:cacheprovider --timeout=900 --continue-on-collection-errors",
        "source_commits": [],
        "add_only": True,
    },
    "engines": [
        {"name": "tlc-trace", "path": "spec/Trace.tla", "serves_properties": sorted(CHECKS),
         "kind_free_text": "TLA+ trace specification evaluated by TLC on executions recorded from the library (code -> spec) and on TLC-enumerated calls replayed into it (spec -> code)"},
        {"name": "tlc-mc", "path": "spec/OpenSkill.tla", "serves_properties": ["C01", "C02", "C03", "C04", "C05", "C06", "C07", "C13", "C14", "C15", "C16", "C18", "C19", "C20"],
         "kind_free_text": "TLC model checking of the state machine on bounded instances (MC_Lattice, MC_Grammar, MC_Outcome, MC_Seq, MC_Threads) with design-level invariants and emission of every transition"},
        {"name": "tlaps-aux", "path": "spec/ThreadsProof.tla", "serves_properties": ["C14"],
         "kind_free_text": "auxiliary TLAPS proof (55 obligations) of ModelReadOnly and ResultIsSequential of Threads.tla for any number of threads and reads"},
        {"name": "apalache-aux", "path": "spec/OutcomeInt.tla", "serves_properties": ["C02", "C03", "C04", "C07", "C11"],
         "kind_free_text": "auxiliary symbolic check (Apalache) of the outcome pipeline over unbounded integer rank values (and of predict_rank's ranking rule over any ordered values, C11): pipeline = rule and order-only (C03), sort + un-sort restores every team and the ladder is symmetric (C02, C07), re-listing equivariance under the tie proviso (C04)"},
        {"name": "tlc-trace-stages", "path": "spec/Stages.tla", "serves_properties": [],
         "kind_free_text": "beyond the listed properties (./check stages, report in extra/stages.json): the helpers' observed arguments and results inside rate() and inside the three predictions against the operators of the specification that model those steps"},
        {"name": "tlc-trace-extras", "path": "spec/Extras.tla", "serves_properties": [],
         "kind_free_text": "beyond the listed properties (./check extras, report in extra/extras.json): text forms, team-rating objects, module-level helpers, inverse CDF and density, the MODELS registry, create_rating's error classes as rules (MC_Extras model-checks the rules against their definitions)"},
        {"name": "tlc-mc-shared-args", "path": "spec/SharedArgs.tla", "serves_properties": ["C14"],
         "kind_free_text": "TLC model checking of callers' threads that pass one outcome list object (no action writes it; negative control RelabelInPlace); bound to the code by a logging list in the thread scheduler and TraceThreads.tla"},
    ],
    "checks": [],
    "not_applicable": [],
    "notes": "All checks: ./check <id> --tier quick|thorough. Exit 2 = machinery failure (never a VIOLATION line). Genuine defects repaired in /repo by four 'fix:' commits, see known_findings.json and DESIGN.md section 2; one recorded finding (KF-C05-1, DESIGN 11.8). Beyond the list: ./check stages, ./check extras, ./check selftest (42 controls). Round 2 is DESIGN.md section 12.",
}
for pid in props:
    if pid in CHECKS:
        c = CHECKS[pid]
        man["checks"].append({
            "property_id": pid,
            "quick_cmd": "./check %s --tier quick" % pid,
            "thorough_cmd": "./check %s --tier thorough" % pid,
            "evidence_file": "/verif/evidence/%s.json" % pid,
            "replay_cmd_template": "./check %s --replay {path}" % pid,
            "engine": "tlc-trace",
            "level_claimed": {"category": "model_checking", "text": c["text"], "design_ref": c["ref"]},
            "level_note": c["note"],
            "technique": c["technique"],
        })
    else:
        man["not_applicable"].append({"property_id": pid, "reason": NOT_YET.get(pid, "check under construction in this round; not claimed yet")})
json.dump(man, open(os.path.join(VERIF, "MANIFEST.json"), "w"), indent=1)
print("checks:", len(man["checks"]), "not claimed:", len(man["not_applicable"]))
