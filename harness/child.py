"""Child process of the C14 'independent processes' stage.

usage: child.py <seed> <count> <mode> <out.ndjson>       mode: plain | polluted
Performs the same scripted calls in every process (script derived from the seed only); in
'polluted' mode each call is preceded by calls of other model instances with other parameters
on the same values and by unrelated calls on the same model.  The parent merges the processes'
events into groups: the same call must return bit-identical numbers in every process,
whatever PYTHONHASHSEED and whatever happened earlier in the process.
"""
import os
import random
import sys

sys.path.insert(0, os.path.dirname(os.path.abspath(__file__)))

import drivers  # noqa: E402
from project import KINDS  # noqa: E402
from record import Session  # noqa: E402


def main():
    seed, count, mode, out = int(sys.argv[1]), int(sys.argv[2]), sys.argv[3], sys.argv[4]
    rng = random.Random(seed)          # the script
    prng = random.Random(seed + 1)     # pollution choices (do not disturb the script)
    sess = Session()
    for k in range(count):
        kind = rng.choice(KINDS)
        params, g, beta = drivers.pick_model_params(rng, kind, simple=rng.random() < 0.5)
        shape = drivers.pick_shape(rng, 5, 3)
        vals = drivers.random_vals(rng, shape, beta, params.get("tau", 1.0) > 0)
        okw, _ = drivers.encode_order(rng, drivers.weak_order(rng, len(shape)))
        names = [[rng.choice(drivers.NAMES) for _ in tv] for tv in vals]
        sess.reset()
        mh = sess.model(kind, gamma=g, **params)
        if mode == "polluted":
            drivers.pollute(sess, prng, kind, params, g, vals, ("rate", "win", "draw", "rank"), okw)
            hv = drivers.random_vals(prng, drivers.pick_shape(prng, 3, 2), beta, False)
            sess.rate(mh, drivers.make_teams(mh, hv), limit_sigma=True, tau=beta)
            sess.predict("win", mh, drivers.make_teams(mh, hv))
        for op in ("rate", "win", "draw", "rank"):
            teams = [[mh.m.rating(mu, sg, nm) if nm is not None else mh.m.rating(mu, sg) for (mu, sg), nm in zip(tv, nv)] for tv, nv in zip(vals, names)]
            gid = "C14:proc%d.%s" % (k, op)
            if op == "rate":
                sess.rate(mh, teams, group=gid, role="x", **okw)
            else:
                sess.predict(op, mh, teams, group=gid, role="x")
    sess.write(out)


if __name__ == "__main__":
    main()
