"""Model checking of the state-machine specification and replay of its transitions into the library."""
import json
import os
import re
import time

import tlc
from replay import Replayer
from tlc import MachineryError

DEFECTS = {"FloatRankUsesIndex": "FALSE", "TauZeroFallsBack": "FALSE", "LimitSigmaWriteBack": "FALSE"}

LATTICE_CFG = """SPECIFICATION MCSpec
CONSTANTS
  FloatRankUsesIndex = %(FloatRankUsesIndex)s
  TauZeroFallsBack = %(TauZeroFallsBack)s
  LimitSigmaWriteBack = %(LimitSigmaWriteBack)s
  RateEffects = {"inplace"}
  KindSet = {%(kinds)s}
  SettingSet = {%(settings)s}
  OutcomeStyle = "%(style)s"
  CastSize = %(cast)d
  MaxTeams = %(maxteams)d
  MaxDepth = 1
  Models <- MCModels
  Cast <- MCCast
  RateCalls <- NoCalls
  PredictCalls <- NoCalls
  ObjectCalls <- NoCalls
%(invariants)s
CHECK_DEADLOCK FALSE
"""


def qset(xs):
    return ", ".join('"%s"' % x for x in xs)


def run_mc(run, module, cfg, tag, emit=True, workers=None, heap="12g", timeout=7200, expect_violation=None):
    """Run TLC on a bounded instance.  Returns dict(states, distinct, emitted events, out).

    A violated invariant is a failure of the *specification* to satisfy its own design-level property:
    reported as machinery failure (exit 2), unless expect_violation names it (negative controls)."""
    emit_file = os.path.join(run.wd, "emit-%s.ndjson" % tag)
    if os.path.exists(emit_file):
        os.remove(emit_file)
    t0 = time.time()
    rc, out = tlc.run_tlc(module, cfg, run.wd, env={"EMIT_FILE": emit_file}, workers=workers or tlc.NCPU, heap=heap, timeout=timeout)
    wall = time.time() - t0
    gen, dist = tlc.tlc_stats(out)
    viol = re.findall(r"Invariant (\w+) is violated|Temporal properties were violated|Action property (\w+) is violated", out)
    if expect_violation is not None:
        return {"out": out, "violated": viol, "states": dist, "generated": gen, "wall": wall}
    if viol or rc != 0 or "Error:" in out:
        log = os.path.join(run.wd, "mc-%s.log" % tag)
        with open(log, "w") as f:
            f.write(out)
        i = out.find("Error:")
        raise MachineryError("model checking of %s (%s) failed (rc=%d): the specification violates its own property or TLC erred; log %s\n%s"
                             % (module, tag, rc, log, out[i:i + 2500] if i >= 0 else out[-2500:]))
    events = []
    if emit and os.path.exists(emit_file):
        with open(emit_file) as f:
            for line in f:
                events.append(json.loads(line))
    run.states += dist
    run.transitions += gen
    run.mc_runs.append({"module": module, "instance": tag, "distinct_states": dist, "states_generated": gen,
                        "transitions_emitted": len(events), "wall_s": round(wall, 1), "exhaustive": True})
    return {"out": out, "states": dist, "generated": gen, "events": events, "wall": wall}


def order_key(ev):
    """Harness-side guess of which emitted rate calls state the same weak order (the trace specification
    re-decides it: a wrong guess is an ill-formed trace, not a pass)."""
    def val(p):
        if p["t"] == "bool":
            return float(p["v"])
        return float(p["v"])

    def dense(xs):
        srt = sorted(set(xs))
        return tuple(srt.index(x) for x in xs)

    teams = json.dumps([[l["ref"] for l in t["items"]] for t in ev["teams"]["items"]])
    n = len(ev["teams"]["items"])
    if ev["ranks"]["t"] == "list" and ev["ranks"]["items"]:
        o = dense([val(x) for x in ev["ranks"]["items"]])
    elif ev["scores"]["t"] == "list" and ev["scores"]["items"]:
        o = dense([-val(x) for x in ev["scores"]["items"]])
    else:
        o = tuple(range(n))
    return (ev["model"]["id"], teams, o, json.dumps(ev["tau"]), json.dumps(ev["limit"]))


def erase_own(p, kind):
    """Harness-side analogue of Rel!EraseOwn (the trace specification re-decides correspondence)."""
    if p.get("t") == "rating":
        return ["rating", "own" if p["v"] == kind else "foreign", p["mu"], p["sigma"]]
    if p.get("t") in ("list", "tuple"):
        return [p["t"], [erase_own(x, kind) for x in p["items"]]]
    return [p.get("t"), p.get("v")]


def model_key(ev):
    k = ev["model"]["kind"]
    return json.dumps([ev["op"], erase_own(ev["teams"], k), erase_own(ev.get("ranks", {"t": "none"}), k),
                       erase_own(ev.get("scores", {"t": "none"}), k)])


def replay_events(run, events, want, stage, group_orders=None, group_models=None):
    """Perform TLC-emitted calls on the real library and validate the recorded executions.
    One trace per call; with group_orders=<prop>, calls stating the same weak order share a trace and a group."""
    import plans

    rp = Replayer()
    if group_orders:
        groups = {}
        for ev in events:
            groups.setdefault(order_key(ev), []).append(ev)
        for gi, (k, evs) in enumerate(groups.items()):
            rp.reset()
            for i, ev in enumerate(evs):
                ev = dict(ev, group="%s:mc%d" % (group_orders, gi), role="base" if i == 0 else "order")
                rp.objs.clear()     # value-identical fresh objects for every sibling
                rp.perform(ev)
    elif group_models:
        # the corresponding call on every model class shares a trace and a group (relation "model")
        groups = {}
        for ev in events:
            groups.setdefault(model_key(ev), []).append(ev)
        for gi, (k, evs) in enumerate(groups.items()):
            rp.reset()
            per_kind = {}
            for e in evs:          # different substitutions can produce the same call: one per class
                per_kind.setdefault(e["model"]["kind"], e)
            evs = sorted(per_kind.values(), key=lambda e: e["model"]["id"])
            for i, ev in enumerate(evs):
                ev = dict(ev, group="%s:mcm%d" % (group_models, gi), role="base" if i == 0 else "model")
                rp.perform(ev)
    else:
        for ev in events:
            rp.reset()
            rp.perform(ev)
    plans.validate_events(run, rp.sess.events, want, stage)
    return rp.sess.events


INV_ALL = ["Inv_C02", "Inv_C05", "Inv_C06", "Inv_C07", "Inv_C13", "Inv_C14"]
INV_PREDICT = ["Inv_Predict", "Inv_C13", "Inv_C14"]


def lattice(run, tag, kinds, settings, cast, maxteams, style="dense", invariants=INV_ALL, want=None, replay=True, defects=None, group_orders=None):
    d = dict(DEFECTS)
    if defects:
        d.update(defects)
    inv = "\n".join("INVARIANT %s" % i for i in list(invariants) + ["Emit"])
    cfg = LATTICE_CFG % dict(d, kinds=qset(kinds), settings=qset(settings), style=style, cast=cast, maxteams=maxteams, invariants=inv)
    res = run_mc(run, "MC_Lattice", cfg, tag)
    if replay:
        replay_events(run, res["events"], want or {run.prop}, "replay:" + tag, group_orders=group_orders)
    run.exhaustive = True
    return res


GRAMMAR_CFG = """SPECIFICATION MCSpec
CONSTANTS
  FloatRankUsesIndex = FALSE
  TauZeroFallsBack = FALSE
  LimitSigmaWriteBack = FALSE
  RateEffects = {"inplace"}
  KindSet = {%(kinds)s}
  Shapes = {%(shapes)s}
  MaxDepth = 1
  Models <- MCModels
  Cast <- MCCast
  RateCalls <- NoCalls
  PredictCalls <- NoCalls
  ObjectCalls <- NoCalls
INVARIANT Inv_C13
INVARIANT Inv_C14
INVARIANT Inv_Grammar
INVARIANT Emit
CHECK_DEADLOCK FALSE
"""


def grammar(run, tag, kinds, shapes, want=None, replay=True, group_models=None):
    cfg = GRAMMAR_CFG % dict(kinds=qset(kinds), shapes=qset(shapes))
    res = run_mc(run, "MC_Grammar", cfg, tag)
    if replay:
        replay_events(run, res["events"], want or {run.prop}, "replay:" + tag, group_models=group_models)
    run.exhaustive = True
    return res


OUTCOME_CFG = """INIT Init
NEXT Next
CONSTANTS
  FloatRankUsesIndex = %(defect)s
  MaxN = %(maxn)d
INVARIANT PipelineIsRule
INVARIANT UnwindInvertsSort
INVARIANT RelabelInvariant
INVARIANT ScoresAreNegatedRanks
INVARIANT LadderSymmetric
INVARIANT LadderSize
CHECK_DEADLOCK FALSE
"""


def outcome(run, maxn, defect="FALSE", expect_violation=None):
    cfg = OUTCOME_CFG % dict(defect=defect, maxn=maxn)
    return run_mc(run, "MC_Outcome", cfg, "outcome-n%d-%s" % (maxn, defect), emit=False, expect_violation=expect_violation)


SEQ_CFG = """SPECIFICATION SSpec
CONSTANTS
  FloatRankUsesIndex = FALSE
  TauZeroFallsBack = FALSE
  LimitSigmaWriteBack = FALSE
  RateEffects = {"inplace"}
  Kind = "%(kind)s"
  MaxDepth = %(depth)d
  EmitDepth = %(depth)d
  NWalks = %(walks)d
  Models <- MCModels
  Cast <- MCCast
  RateCalls <- MCRateCalls
  PredictCalls <- MCPredictCalls
  ObjectCalls <- MCObjectCalls
INVARIANT Inv_C02
INVARIANT Inv_C05
INVARIANT Inv_C06
INVARIANT Inv_C07
INVARIANT Inv_C13
INVARIANT Inv_C14
INVARIANT Inv_Predict
INVARIANT Inv_Obj
INVARIANT HeapFollowsLast
INVARIANT Inv_ModelsAsConfigured
INVARIANT EmitHist
PROPERTY ModelsNeverChange
CHECK_DEADLOCK FALSE
"""


def sequences(run, kind, depth, want, walks=0, seed=1):
    """Behaviours of the state machine - exhaustive to depth, or `walks` random walks of that depth - replayed on live objects."""
    import plans

    cfg = SEQ_CFG % dict(kind=kind, depth=depth, walks=walks)
    tag = "seq-%s-d%d%s" % (kind, depth, "-w%d" % walks if walks else "")
    simulate = bool(walks)
    emit_file = os.path.join(run.wd, "emit-%s.ndjson" % tag)
    if os.path.exists(emit_file):
        os.remove(emit_file)
    t0 = time.time()
    rc, out = tlc.run_tlc("MC_Seq", cfg, run.wd, env={"EMIT_FILE": emit_file}, workers=tlc.NCPU, heap="12g",
                          extra=["-seed", str(seed)] if walks else None)
    if rc != 0 or "Error:" in out or "violated" in out:
        log = os.path.join(run.wd, "mc-%s.log" % tag)
        open(log, "w").write(out)
        i = out.find("Error:")
        raise MachineryError("MC_Seq %s failed (rc=%d), log %s\n%s" % (tag, rc, log, out[i:i + 2500] if i >= 0 else out[-2000:]))
    gen, dist = tlc.tlc_stats(out)
    hists = []
    seen = set()
    with open(emit_file) as f:
        for line in f:
            if line in seen:
                continue
            seen.add(line)
            h = json.loads(line)
            if isinstance(h, dict):      # ToJson of a one-element sequence can come out as an object keyed by index
                h = [h[k] for k in sorted(h, key=int)]
            hists.append(h)
    # replay only maximal behaviours (a prefix is covered by its extensions) unless exhaustive depth is small
    keys = {json.dumps([_call_key(e) for e in h]) for h in hists}
    maximal = [h for h in hists if len(h) == depth or not any(k.startswith(json.dumps([_call_key(e) for e in h])[:-1] + ",") for k in keys)]
    run.states += dist
    run.transitions += gen
    run.mc_runs.append({"module": "MC_Seq", "instance": tag, "distinct_states": dist, "states_generated": gen,
                        "behaviours_emitted": len(hists), "behaviours_replayed": len(maximal), "wall_s": round(time.time() - t0, 1),
                        "exhaustive": not simulate})
    rp = Replayer(follow=False)
    for h in maximal:
        rp.reset()
        for ev in h:
            rp.perform(ev)
    plans.validate_events(run, rp.sess.events, want, "replay:" + tag)
    return len(maximal)


def _call_key(e):
    k = {x: e.get(x) for x in ("op", "cmpop", "ranks", "scores", "tau", "limit", "mu", "arg", "a", "b", "args", "attr", "value")}
    k["m"] = e.get("model", {}).get("id")
    t = e.get("teams")
    k["teams"] = json.dumps(t, sort_keys=True)[:0] + (json.dumps([[l.get("ref") for l in tm.get("items", [])] for tm in t.get("items", [])]) if t and t.get("t") == "list" else "")
    return k


APALACHE_INVS = {
    "Inv": "PosIsPermutation /\\ PipelineIsRule /\\ OrderOnly",
    "Inv2": "PosInjective /\\ UnwindRestores /\\ LadderSymmetric /\\ LadderAdjacent /\\ LadderDegree",
    "Inv3": "SortEquivariant /\\ RankEquivariant /\\ TiesOnlyMove",
    "Inv4": "RankInRange /\\ RankOrder /\\ RankTop /\\ RankOrderOnly",
}


def apalache_outcome(run, sizes, negative=False, inv="Inv"):
    """Symbolic check (Apalache, unbounded integers) that the outcome pipeline equals the rule and depends on the
    rank values only through their weak order, for every vector of the given lengths.  Auxiliary to the TLC checks."""
    import shutil
    import subprocess

    exe = shutil.which("apalache-mc")
    if not exe:
        run.notes.append("apalache-mc not found: symbolic outcome check skipped")
        return None
    results = []
    for n in sizes:
        out_dir = os.path.join(run.wd, "apalache-n%s" % n)
        cinit = "CInitNeg" if negative and inv == "Inv" else "CInit%d" % n
        t0 = time.time()
        r = subprocess.run([exe, "check", "--cinit=" + cinit, "--inv=" + inv, "--length=0", "--out-dir=" + out_dir,
                            os.path.join(tlc.SPEC, "OutcomeInt.tla")], capture_output=True, text=True, timeout=3600, cwd=run.wd)
        ok = "EXITCODE: OK" in r.stdout
        err = "Checker has found an error" in r.stdout
        shutil.rmtree(out_dir, ignore_errors=True)
        if negative:
            results.append(err)
            continue
        if not ok:
            raise MachineryError("Apalache did not establish OutcomeInt!%s for N=%d:\n%s" % (inv, n, r.stdout[-1500:]))
        run.mc_runs.append({"module": "OutcomeInt", "tool": "apalache-mc 0.58 (symbolic, unbounded Int values)", "instance": "N=%d" % n,
                            "invariant": APALACHE_INVS.get(inv, inv), "result": "no error", "wall_s": round(time.time() - t0, 1)})
        results.append(True)
    return results


def tlaps_threads(run):
    """TLAPS proof (unbounded threads and reads) of ModelReadOnly and ResultIsSequential for Threads.tla without the
    repaired defect.  Auxiliary to the TLC runs of MC_Threads; proved in a scratch copy so that no cache is written to spec/."""
    import shutil
    import subprocess

    exe = shutil.which("tlapm")
    if not exe:
        run.notes.append("tlapm not found: TLAPS proof of the thread theorems skipped")
        return None
    d = os.path.join(run.wd, "tlaps")
    os.makedirs(d, exist_ok=True)
    for f in ("Threads.tla", "ThreadsProof.tla"):
        shutil.copy(os.path.join(tlc.SPEC, f), os.path.join(d, f))
    t0 = time.time()
    m = None
    out = ""
    for _attempt in range(3):      # the proof manager occasionally fails to start under load (its back ends share temporary files)
        r = subprocess.run([exe, "--cleanfp", "-I", "/opt/veriftools/tlapm/lib/tlaps", "ThreadsProof.tla"], cwd=d, capture_output=True, text=True, timeout=1800)
        out = r.stdout + r.stderr
        m = re.search(r"All (\d+) obligations proved", out)
        if m or re.search(r"obligations? failed", out):
            break
        time.sleep(2)
    shutil.rmtree(d, ignore_errors=True)
    if not m:
        if not re.search(r"obligations? failed", out):
            # the prover did not run at all: the proof is auxiliary to the TLC runs of MC_Threads, which follow
            run.notes.append("tlapm did not start (3 attempts): TLAPS proof of the thread theorems skipped; " + out[-200:].replace("\n", " "))
            return None
        raise MachineryError("TLAPS did not prove ThreadsProof.tla:\n%s" % out[-2000:])
    run.mc_runs.append({"module": "ThreadsProof", "tool": "tlapm (TLAPS 1.6.0-pre)", "theorems": "ReadOnly, Sequential (any number of threads and reads)",
                        "obligations": int(m.group(1)), "discharged": int(m.group(1)), "wall_s": round(time.time() - t0, 1)})
    return int(m.group(1))
