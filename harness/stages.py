"""The inside of one rate call, observed without changing the library.

While a call runs, the helpers it is built from are wrapped *in the harness* (module attributes of the model's module,
methods of the model's class, the model's gamma callback) and what they were given and what they returned is kept.
After the call the observations are turned into stage records that refer to the caller's teams by position:

  sort      _unwind(ranks, teams)              ints = input position of the team at each sorted position, ints2 = tenet
  rankings  _calculate_rankings(game, ranks)   ints = running index per sorted position
  agg       _calculate_team_ratings(...)       nums = team mu, nums2 = team sigma^2, ints = rank   (sorted order)
  ladder    _ladder_pairs(team_ratings)        lists = neighbours (sorted positions) of each sorted position
  c, sum_q, a   PL (used), BTF, TMF (unused)           nums / ints in sorted order
  gamma     the callback, once per use         ints = [input position of the team, k, rank], nums = [c, mu, sigma^2],
                                               lists = [ids of the members it was handed, as input slots]
  unsort    _unwind(tenet, result)             ints = sorted position of what ends at each input position

Trace.tla (Stages!StageFails) compares each with the operator of the specification that models that step: Outcome!SortPerm,
RunIdx, Pos, Ladder and Update!Agg, PLc, PLSumQ, TieSize, the pair scales c_iq.  A helper that no longer exists, or that is
called with other arguments than these, simply yields no record: the stage clauses (prefix "S.") belong to no listed
property and are evaluated only by `./check stages`.
"""
import contextlib
import sys

from project import fnum

MODULE_HELPERS = ["_unwind", "_ladder_pairs", "phi_major", "phi_major_inverse", "_rank_data"]
METHODS = ["_calculate_rankings", "_calculate_team_ratings", "_c", "_sum_q", "_a"]


@contextlib.contextmanager
def observe(model, log):
    """Wrap the helpers of model's module / class and its gamma callback; append (name, args, kwargs, result) to log."""
    mod = sys.modules.get(type(model).__module__)
    cls = type(model)
    undo = []

    def rec(name, fn):
        def wrapper(*a, **k):
            out = fn(*a, **k)
            log.append((name, a, k, out))
            return out
        return wrapper

    try:
        for name in MODULE_HELPERS:
            if mod is not None and callable(getattr(mod, name, None)):
                orig = getattr(mod, name)
                setattr(mod, name, rec(name, orig))
                undo.append((mod, name, orig, False))
        for name in METHODS:
            raw = vars(cls).get(name)
            if raw is None:
                continue
            if isinstance(raw, staticmethod):
                setattr(cls, name, staticmethod(rec(name, raw.__func__)))
            elif callable(raw):
                def make(nm, f):
                    def wrapper(self, *a, **k):
                        out = f(self, *a, **k)
                        log.append((nm, a, k, out))
                        return out
                    return wrapper
                setattr(cls, name, make(name, raw))
            else:
                continue
            undo.append((cls, name, raw, False))
        g = getattr(model, "gamma", None)
        had = "gamma" in getattr(model, "__dict__", {"gamma": None})
        if callable(g):
            def gw(*a, **k):
                out = g(*a, **k)
                log.append(("gamma", a, k, out))
                return out
            object.__setattr__(model, "gamma", gw)
            undo.append((model, "gamma", g, not had))
        yield
    finally:
        for obj, name, orig, delete in reversed(undo):
            if delete:
                object.__delattr__(obj, name)
            elif obj is model:
                object.__setattr__(obj, name, orig)
            else:
                setattr(obj, name, orig)


def _pos(seq, x):
    """1-based position of object x (identity) in seq, 0 when absent or ambiguous."""
    hits = [i for i, y in enumerate(seq) if y is x]
    return hits[0] + 1 if len(hits) == 1 else 0


def _rec(name, ints=(), ints2=(), nums=(), nums2=(), lists=()):
    return {"name": name, "ints": [int(i) for i in ints], "ints2": [int(i) for i in ints2],
            "nums": [fnum(x) for x in nums], "nums2": [fnum(x) for x in nums2], "lists": [[int(i) for i in l] for l in lists]}


def _isnum(x):
    return isinstance(x, (int, float)) and not isinstance(x, bool)


def to_records(log, teams):
    """Stage records from the raw observations of one rate call on the caller's `teams` (list of lists)."""
    out = []
    if not isinstance(teams, list) or not all(isinstance(t, list) for t in teams):
        return out
    slot = {}
    for i, t in enumerate(teams):
        for j, p in enumerate(t):
            slot.setdefault(id(p), []).append((i + 1, j + 1))
    sorted_teams = None      # the team lists in the order the update saw them
    unwinds = 0
    for name, a, k, res in log:
        try:
            if name == "_unwind" and len(a) == 2 and isinstance(a[1], list) and isinstance(res, tuple) and len(res) == 2:
                unwinds += 1
                if unwinds == 1 and len(a[1]) == len(teams) and all(_pos(teams, t) for t in res[0]):
                    sorted_teams = list(res[0])
                    out.append(_rec("sort", ints=[_pos(teams, t) for t in res[0]], ints2=res[1]))
                elif unwinds == 2 and all(_pos(a[1], t) for t in res[0]):
                    out.append(_rec("unsort", ints=[_pos(a[1], t) for t in res[0]]))
            elif name == "_calculate_rankings" and isinstance(res, list) and all(isinstance(r, int) for r in res):
                out.append(_rec("rankings", ints=res))
            elif name == "_calculate_team_ratings" and isinstance(res, list):
                if all(_isnum(getattr(t, "mu", None)) and _isnum(getattr(t, "sigma_squared", None)) and isinstance(getattr(t, "rank", None), int) for t in res):
                    out.append(_rec("agg", ints=[t.rank for t in res], nums=[t.mu for t in res], nums2=[t.sigma_squared for t in res]))
            elif name == "_ladder_pairs" and len(a) == 1 and isinstance(a[0], list) and isinstance(res, list) and len(res) == len(a[0]):
                ls = [[_pos(a[0], x) for x in nb] for nb in res]
                if all(all(l) for l in ls):
                    out.append(_rec("ladder", lists=ls))
            elif name == "_c" and _isnum(res):
                out.append(_rec("c", nums=[res]))
            elif name == "_sum_q" and isinstance(res, list) and all(_isnum(x) for x in res):
                out.append(_rec("sum_q", nums=res))
            elif name == "_a" and isinstance(res, list) and all(isinstance(x, int) for x in res):
                out.append(_rec("a", ints=res))
            elif name == "gamma" and len(a) == 6 and not k:
                c, kk, mu, s2, team, rank = a
                members = [slot.get(id(p), [(0, 0)]) for p in team] if isinstance(team, (list, tuple)) else []
                if members and all(len(m) == 1 and m[0][0] for m in members) and len({m[0][0] for m in members}) == 1 \
                        and _isnum(c) and isinstance(kk, int) and _isnum(mu) and _isnum(s2) and isinstance(rank, int):
                    ti = members[0][0][0]
                    out.append(_rec("gamma", ints=[ti, kk, rank], nums=[c, mu, s2], lists=[[m[0][1] for m in members]]))
        except Exception:  # noqa: BLE001 - an observation that cannot be projected is no observation
            continue
    return out


def to_predict_records(log, teams):
    """Stage records from the raw observations of one predict_* call on the caller's `teams`:

      pagg     _calculate_team_ratings([team]) / (teams)   ints = team positions, nums = team mu, nums2 = team sigma^2
      phi      every phi_major(z) evaluated                nums = the arguments z, nums2 = the values returned
      phi_inv  phi_major_inverse(p)                        nums = [p], nums2 = [value]
      rank_in  _rank_data(vector)                          nums = the vector ranked, ints = the ranks returned
    """
    out = []
    if not isinstance(teams, list) or not all(isinstance(t, list) for t in teams):
        return out
    zs, vs = [], []
    pos, mus, s2s = [], [], []
    for name, a, k, res in log:
        try:
            if name == "phi_major" and len(a) == 1 and _isnum(a[0]) and _isnum(res):
                zs.append(a[0])
                vs.append(res)
            elif name == "phi_major_inverse" and len(a) == 1 and _isnum(a[0]) and _isnum(res):
                out.append(_rec("phi_inv", nums=[a[0]], nums2=[res]))
            elif name == "_rank_data" and len(a) == 1 and isinstance(a[0], list) and all(_isnum(x) for x in a[0]) \
                    and isinstance(res, list) and all(isinstance(r, int) for r in res):
                out.append(_rec("rank_in", nums=a[0], ints=res))
            elif name == "_calculate_team_ratings" and len(a) >= 1 and isinstance(a[0], list) and isinstance(res, list) and len(res) == len(a[0]):
                for tm, tr in zip(a[0], res):
                    # predictions only read: the same list may stand in several slots, and is then every one of them
                    for i in [q + 1 for q, y in enumerate(teams) if y is tm]:
                        if _isnum(getattr(tr, "mu", None)) and _isnum(getattr(tr, "sigma_squared", None)):
                            pos.append(i)
                            mus.append(tr.mu)
                            s2s.append(tr.sigma_squared)
        except Exception:  # noqa: BLE001
            continue
    if zs:
        out.append(_rec("phi", nums=zs, nums2=vs))
    if pos:
        out.append(_rec("pagg", ints=pos, nums=mus, nums2=s2s))
    return out
