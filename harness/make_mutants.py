"""Own mutant catalogue (DESIGN Appendix A): one textual edit each, applied to a scratch worktree; kept only if the
repository's suite still passes.  Written to /verif/mutants/<id>/ (patch.diff, meta.json) and run with
    harness/seeds.py run --dir mutants
m67 is a control: a behaviour-preserving change that must NOT be reported."""
import json
import os
import subprocess
import sys

VERIF = os.path.dirname(os.path.dirname(os.path.abspath(__file__)))
OUT = os.path.join(VERIF, "mutants")
F = {"PL": "plackett_luce", "BTF": "bradley_terry_full", "BTP": "bradley_terry_part", "TMF": "thurstone_mosteller_full",
     "TMP": "thurstone_mosteller_part", "common": "common"}

# (id, properties, file, old, new, count (which occurrence, 0 = the only one / first), note)
M = [
 ("m05", ["C06", "C08"], "BTF", "max(1 - (sigma**2 / team_i.sigma_squared) * delta, self.kappa)", "max(1 - (sigma**2 / team_i.sigma_squared) * delta, 0.0)", 0, "floor replaced by 0"),
 ("m08", ["C20"], "PL", "        plr.id = self.id\n", "", 0, "__deepcopy__ no longer copies the id"),
 ("m09", ["C06", "C02"], "TMP", "player_original = original_teams[team_index][player_index]", "player_original = original_teams[team_index][0]", 0, "clamp against the first member's prior"),
 ("m14", ["C12"], "PL", "(mu_a - mu_b) / math.sqrt(n * self.beta**2 + sigma_a + sigma_b)\n                )\n            )\n\n        return [", "(mu_a - mu_b) / math.sqrt(2 * self.beta**2 + sigma_a + sigma_b)\n                )\n            )\n\n        return [", 0, "predict_win n>2: n beta^2 -> 2 beta^2"),
 ("m15", ["C12", "C19"], "BTF", "total_player_count * self.beta**2", "2 * self.beta**2", 0, "predict_win two teams: N beta^2 -> 2 beta^2"),
 ("m17", ["C11"], "TMF", "ranks = [abs(_ - max_ordinal) + 1 for _ in ranks]", "ranks = [_ for _ in ranks]", 0, "predict_rank: reversal dropped"),
 ("m19", ["C13"], "BTP", "if isinstance(player, BradleyTerryPartRating):", "if hasattr(player, \"mu\") and hasattr(player, \"sigma\"):", 0, "duck typing of players"),
 ("m20", ["C13"], "PL", "                for rank in ranks:\n                    if isinstance(rank, (int, float)):\n                        pass\n                    else:\n                        raise TypeError(\n                            f\"Argument 'ranks' must be a list of 'int' or 'float' values, \"\n                            f\"not '{rank.__class__.__name__}'.\"\n                        )\n", "", 0, "per-element type check of ranks removed"),
 ("m25", ["C17"], "common", "-xt if (denominator < sys.float_info.epsilon) else", "-xt if (denominator < 1e-10) else", 0, "v: guard at 1e-10"),
 ("m29", ["C18"], "BTP", "if self.ordinal() > other.ordinal():", "if self.ordinal() >= other.ordinal():", 0, "__gt__ uses >="),
 ("m32", ["C20"], "TMF", "ThurstoneMostellerFullRating(self.mu, self.sigma, self.name)", "ThurstoneMostellerFullRating(self.mu, self.sigma)", 0, "__deepcopy__ drops the name"),
 ("m37", ["C01"], "BTF", "                    len(team_ratings),\n                    team_i.mu,\n                    team_i.sigma_squared,\n                    team_i.team,\n                    team_i.rank,", "                    team_i.rank,\n                    team_i.mu,\n                    team_i.sigma_squared,\n                    team_i.team,\n                    len(team_ratings),", 0, "gamma called with k and rank exchanged"),
 ("m44", ["C01", "C05"], "PL", "mu += (sigma**2 / team_i.sigma_squared) * omega", "mu += (1 / len(team_i.team)) * omega", 0, "mu share 1/len(team)"),
 ("m45", ["C01"], "TMF", "max(1 - (sigma**2 / team_i.sigma_squared) * delta, self.kappa)", "max(1 - (sigma**2 / team_i.sigma_squared) * delta, 0.0001)", 0, "floor literal 1e-4 instead of kappa"),
 ("m50", ["C13"], "TMF", "if len(ranks) != len(teams):", "if len(ranks) < len(teams):", 0, "ranks length check < instead of !="),
 ("m52", ["C18"], "PL", "return self.mu - z * self.sigma", "return self.mu - 3.0 * self.sigma", 0, "ordinal ignores z"),
 ("m53", ["C18"], "BTF", "if self.mu == other.mu and self.sigma == other.sigma:", "if self.ordinal() == other.ordinal():", 0, "__eq__ compares ordinals"),
 ("m62", ["C10", "C12"], "BTP", "return abs(sum(pairwise_probabilities)) / denominator", "return sum(pairwise_probabilities) / denominator + 1e-7", 0, "predict_draw: no abs, +1e-7"),
 ("m65", ["C16", "C01"], "BTF", "team_i.sigma_squared + team_q.sigma_squared + (2 * beta**2)\n                )\n                piq", "team_i.sigma_squared + team_q.sigma_squared + (2 * beta**2) + 1e-6\n                )\n                piq", 0, "c_iq^2 + 1e-6"),
 ("m66", ["C14"], "PL", "        n = len(teams)\n        denominator = (n * (n - 1)) / 2\n", "        n = len(teams)\n        self._last_n = n\n        denominator = (n * (n - 1)) / 2\n", 0, "predict_win stores self._last_n"),
 ("m67", [], "TMF", "                    final_team.append(player)\n", "                    final_team.append(copy.deepcopy(player) if player_index % 2 else player)\n", 0, "CONTROL: some returned players are deep copies (values, ids, names equal) - not a violation"),
 ("m68", ["C05", "C07", "C01"], "TMP", "omega += -sigma_squared_to_c_iq * v(\n                            -delta_mu, self.kappa / c_iq\n                        )", "omega += -sigma_squared_to_c_iq * v(\n                            -delta_mu, -self.kappa / c_iq\n                        )", 0, "loss term v(-x, -t)"),
 ("m69", ["C19"], "TMP", "    def predict_draw(self, teams: List[List[ThurstoneMostellerPartRating]]) -> float:", "    def predict_draw(self, teams: List[List[ThurstoneMostellerPartRating]], margin: Optional[float] = None) -> float:", 0, "extra optional parameter on predict_draw"),
 ("m71", ["C01"], "TMF", "self.kappa: float = float(kappa)", "self.kappa: float = max(float(kappa), 0.0001)", 0, "constructor floors kappa at 1e-4"),
 ("m72", ["C12", "C01"], "BTP", "self.beta: float = beta", "self.beta: float = beta if self.mu == 25.0 else self.mu / 6.0", 0, "constructor derives beta from a customised mu"),
 ("m73", ["C15", "C06"], "PL", "self.limit_sigma: bool = limit_sigma", "self.limit_sigma: bool = limit_sigma and self.tau > 0", 0, "constructor drops limit_sigma when tau is 0"),
 ("m64", ["C04", "C01"], "common", "    right: List[Any] = list(teams[1:])\n    right.append(None)", "    right: List[Any] = list(teams[1:3]) + list(teams[2:-1])\n    right.append(None)", 0, "ladder neighbours wrong from the 4th team on"),
]


def sh(cmd, cwd=None):
    r = subprocess.run(cmd, shell=True, cwd=cwd, capture_output=True, text=True)
    return r.returncode, r.stdout + r.stderr


def main():
    wt = "/tmp/mutwt-%d" % os.getpid()
    rc, out = sh("git -C /repo worktree add -q --detach %s HEAD" % wt)
    assert rc == 0, out
    try:
        for (mid, props, fkey, old, new, _k, note) in M:
            if any(d.startswith(mid + "-") for d in os.listdir(OUT)):
                continue
            rel = "openskill/models/weng_lin/%s.py" % F[fkey]
            path = os.path.join(wt, rel)
            src = open(path).read()
            if src.count(old) < 1:
                print(mid, "PATTERN NOT FOUND")
                continue
            open(path, "w").write(src.replace(old, new, 1))
            rc, out = sh("/venv/bin/python -m pytest -q -p no:cacheprovider 2>&1 | tail -1", cwd=wt)
            survives = "101 passed" in out
            rc, diff = sh("git diff -- openskill", cwd=wt)
            sh("git checkout -- .", cwd=wt)
            if not survives:
                print(mid, "killed by the suite:", out.strip())
                continue
            d = os.path.join(OUT, "%s-%s" % (mid, note.split(":")[0].lower().replace(" ", "-").replace("/", "-")[:40]))
            os.makedirs(d, exist_ok=True)
            open(os.path.join(d, "patch.diff"), "w").write(diff)
            meta = {"property": props[0] if props else "none", "also_check": props[1:], "origin": "own catalogue (DESIGN Appendix A), one textual edit",
                    "needs": note, "confirmed": ["suite with change: " + out.strip()], "expected_detected": bool(props)}
            if not props:
                meta["property"] = "C02"
                meta["also_check"] = ["C01", "C06", "C14"]
                meta["expected_detected"] = False
            json.dump(meta, open(os.path.join(d, "meta.json"), "w"), indent=1)
            print(mid, "stored", os.path.basename(d))
    finally:
        sh("git -C /repo worktree remove --force %s" % wt)


if __name__ == "__main__":
    main()
