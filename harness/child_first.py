"""Child process of the C14 'cold start' stage: the very first calls a process makes, made concurrently.

usage: child_first.py <seed> <case> <k> <out.json>

Whatever a library builds on first use (a table filled lazily, a cache, a compiled pattern) is built here by two callers'
threads at once: the script of case <case> (derived from the seed only) gives two calls on disjoint ratings through one
shared model; thread 0 is pre-empted after <k> executed LINES of library code (sys.settrace line events), thread 1 then runs
to completion, thread 0 resumes.  No call of the library precedes them in this process.  The parent runs the same two calls
one after another in its own process (`base`) and groups the threads' results with them (`same`): C14 - the numbers depend
on nothing but the model's parameters, the values and the call's arguments.
"""
import json
import os
import random
import sys

sys.path.insert(0, os.path.dirname(os.path.abspath(__file__)))

import drivers  # noqa: E402
import sched  # noqa: E402
from project import KINDS  # noqa: E402
from record import Session  # noqa: E402


def script(seed, case):
    """(kind, params, gamma, calls) of a case - the same in parent and child."""
    rng = random.Random("%s/cold/%s" % (seed, case))
    kind = KINDS[case % len(KINDS)]
    params, g, beta = drivers.pick_model_params(rng, kind, simple=True)
    params["tau"] = beta / 3.0
    style = (case // len(KINDS)) % 4
    n = rng.choice([3, 3, 4, 2])
    calls = []
    for t in range(2):
        shape = [rng.randint(1, 2) for _ in range(n)]
        vals = drivers.random_vals(rng, shape, beta, False)
        vals = [[(mu * 0.3, min(sg, 2 * beta)) for (mu, sg) in tv] for tv in vals]
        if style == 0:
            calls.append({"op": "rate", "vals": vals, "kw": {"ranks": [float(v) for v in drivers.random_perm(rng, n)]}})
        else:
            calls.append({"op": ["win", "draw", "rank"][style - 1], "vals": vals, "kw": {}})
    return kind, params, g, calls


def main():
    seed, case, k, out = int(sys.argv[1]), int(sys.argv[2]), int(sys.argv[3]), sys.argv[4]
    kind, params, g, calls = script(seed, case)
    sess = Session()
    log = []
    counter = [0]
    plan = [(0, k), (1, None), (0, None)] if k >= 0 else [(0, None), (1, None)]
    sched.run_execution(sess, 900000 + case * 100000 + max(k, 0), kind, params, g, calls, plan, log, fine="line", counter=counter, base_first=False)
    json.dump({"events": sess.events, "log": log, "lines": counter[0]}, open(out, "w"))


if __name__ == "__main__":
    main()
