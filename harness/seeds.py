"""Seeded changes: import (after confirming them) and run the checks against them.

  seeds.py verify <worktree> <name> <property> [needs...]   confirm and store under seeded/<name>/
  seeds.py run [name ...] [--tier quick] [--props C01,C02]  apply each patch to /repo, run checks, undo
"""
import json
import os
import shutil
import subprocess
import sys
import time

VERIF = os.path.dirname(os.path.dirname(os.path.abspath(__file__)))
SEEDED = os.path.join(VERIF, "seeded")
PY = "/venv/bin/python"


def sh(cmd, cwd=None, timeout=3600):
    r = subprocess.run(cmd, shell=True, cwd=cwd, capture_output=True, text=True, timeout=timeout)
    return r.returncode, r.stdout + r.stderr


def verify(wt, name, prop, needs):
    seed = os.path.join(wt, "_seed")
    ran = []
    rc, out = sh("%s -m pytest -q -p no:cacheprovider 2>&1 | tail -1" % PY, cwd=wt)
    ran.append("pytest with change: " + out.strip())
    assert "101 passed" in out, out
    rc1, out1 = sh("%s _seed/demo.py" % PY, cwd=wt)
    ran.append("demo with change: exit %d" % rc1)
    assert rc1 != 0, "demo does not fail with the change"
    rc, out = sh("git stash -q -- openskill", cwd=wt)
    assert rc == 0, out
    try:
        rc0, out0 = sh("%s _seed/demo.py" % PY, cwd=wt)
        ran.append("demo without change: exit %d" % rc0)
        rcA, outA = sh("git apply --check _seed/patch.diff", cwd=wt)
        ran.append("git apply --check on clean tree: exit %d" % rcA)
    finally:
        rc, out = sh("git stash pop -q", cwd=wt)
    assert rc0 == 0, "demo fails without the change:\n" + out0
    assert rcA == 0, outA
    dst = os.path.join(SEEDED, name)
    os.makedirs(dst, exist_ok=True)
    for f in ("patch.diff", "demo.py", "notes.md"):
        if os.path.exists(os.path.join(seed, f)):
            shutil.copy(os.path.join(seed, f), os.path.join(dst, f))
    meta = {"property": prop, "origin": "sub-agent given only the property text and a scratch worktree",
            "needs": " ".join(needs), "confirmed": ran, "demo_output_with_change": out1.strip()[-600:]}
    json.dump(meta, open(os.path.join(dst, "meta.json"), "w"), indent=1)
    print("stored", dst)
    for r in ran:
        print("  ", r)


def run(names, tier, props, jobs=1):
    """Each seeded change is applied to its own scratch worktree of /repo (removed afterwards); the checks run
    against it through VERIF_REPO, with evidence redirected so that /verif/evidence is not touched."""
    from concurrent.futures import ThreadPoolExecutor

    def one(name):
        d = os.path.join(SEEDED, name)
        meta = json.load(open(os.path.join(d, "meta.json")))
        plist = props or [meta["property"]] + meta.get("also_check", [])
        wt = "/tmp/seedwt-%s-%d" % (name, os.getpid())
        rc, out = sh("git -C /repo worktree add -q --detach %s HEAD && git -C %s apply %s" % (wt, wt, os.path.join(d, "patch.diff")))
        assert rc == 0, out
        rows = []
        try:
            for p in plist:
                t0 = time.time()
                rc, out = sh("cd %s && VERIF_REPO=%s VERIF_EVIDENCE_DIR=%s/_evidence ./check %s --tier %s" % (VERIF, wt, wt, p, tier))
                viol = [l for l in out.splitlines() if l.startswith("VIOLATION")]
                clause = [l.strip() for l in out.splitlines() if l.strip().startswith("clauses:")]
                rows.append((name, meta["property"], p, rc, len(viol), clause[0][:150] if clause else out.strip().splitlines()[-1][:150], time.time() - t0))
                print("%-32s seeded for %s, check %s: exit %d  %s" % (name, meta["property"], p, rc, rows[-1][5]), flush=True)
        finally:
            sh("git -C /repo worktree remove --force %s" % wt)
        return rows

    allrows = []
    with ThreadPoolExecutor(max_workers=jobs) as ex:
        for rows in ex.map(one, names):
            allrows.extend(rows)
    return allrows


if __name__ == "__main__":
    if sys.argv[1] == "verify":
        verify(sys.argv[2], sys.argv[3], sys.argv[4], sys.argv[5:])
    else:
        args = sys.argv[2:]
        tier = "quick"
        jobs = 1
        props = None
        names = []
        i = 0
        while i < len(args):
            if args[i] == "--tier":
                tier = args[i + 1]
                i += 2
            elif args[i] == "--props":
                props = args[i + 1].split(",")
                i += 2
            elif args[i] == "--jobs":
                jobs = int(args[i + 1])
                i += 2
            elif args[i] == "--write":
                i += 1
            elif args[i] == "--dir":
                SEEDED = os.path.join(VERIF, args[i + 1])
                globals()["SEEDED"] = SEEDED
                i += 2
            else:
                names.append(args[i])
                i += 1
        if not names:
            names = sorted(n for n in os.listdir(SEEDED) if os.path.exists(os.path.join(SEEDED, n, "meta.json")))
        rows = run(names, tier, props, jobs)
        missed = [r for r in rows if r[3] != 1]
        print("%d runs, %d not detected" % (len(rows), len(missed)))
        if "--write" in sys.argv:
            # table of which check catches which seeded change (committed; quoted by DESIGN.md 11.5)
            res = {}
            path = os.path.join(SEEDED, "RESULTS.json")
            if os.path.exists(path):
                res = json.load(open(path))
            for (name, prop, p, rc, nv, clause, wall) in rows:
                res.setdefault(name, {"seeded_for": prop, "checks": {}})["checks"][p] = {"exit": rc, "first_clauses": clause, "tier": tier}
            json.dump(res, open(path, "w"), indent=1, sort_keys=True)
            lines = ["| seeded change | property | needs | check | exit | first failing clauses |", "|---|---|---|---|---|---|"]
            for name in sorted(res):
                meta = json.load(open(os.path.join(SEEDED, name, "meta.json")))
                for p, r in sorted(res[name]["checks"].items()):
                    lines.append("| %s | %s | %s | %s | %d | %s |" % (name, res[name]["seeded_for"], meta.get("needs", "")[:160].replace("|", "/"), p, r["exit"],
                                                                    r["first_clauses"].replace("clauses: ", "")[:90].replace("|", "/")))
            open(os.path.join(SEEDED, "RESULTS.md"), "w").write("\n".join(lines) + "\n")
