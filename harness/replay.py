"""Re-execution of PyVal-encoded calls against the real library.

Used in two directions: (1) spec -> code: calls enumerated by TLC from the state machine
are performed on the real classes and recorded; (2) replay files: the calls of a recorded
violating trace are performed again on the current tree.
"""
import math
import re

from record import ABSENT, Session


class Opaque:
    """A non-rating, non-container object."""


def num(tok, t):
    if t == "bool":
        return tok == "1"
    if t == "int":
        return int(tok)
    if tok == "nan":
        return float("nan")
    if tok == "inf":
        return float("inf")
    if tok == "-inf":
        return float("-inf")
    return float(tok)


def pnum(tok):
    """Numeral of a rating attribute -> Python number (int when printed as one)."""
    if re.fullmatch(r"-?\d+", tok):
        return int(tok)
    return num(tok, "float")


class Replayer:
    def __init__(self, sess=None, follow=True):
        """follow=True: an existing object is set to the script's recorded pre-state before a call (standalone
        transitions, replay files).  follow=False: live values are kept (behaviours replayed on live objects)."""
        self.follow = follow
        self.sess = sess or Session()
        self.objs = {}
        self.models = {}
        self.scratch = {}

    def reset(self):
        self.sess.reset()
        self.objs.clear()
        self.models.clear()

    def model_for(self, rec):
        mid = rec["id"]
        if mid in self.models:
            return self.models[mid]
        kw = {}
        for a in ("mu", "sigma", "beta", "kappa", "tau"):
            kw[a] = float(rec[a])
        kw["limit_sigma"] = rec["limit"] == "T"
        mh = self.sess.model(rec["kind"], gamma=rec["gamma"], _mid=mid, **kw)
        self.models[mid] = mh
        return mh

    def scratch_model(self, kind):
        if kind not in self.scratch:
            self.scratch[kind] = self.sess.classes[kind]()
        return self.scratch[kind]

    def decode(self, p):
        t = p["t"]
        if t == "none":
            return None
        if t in ("bool", "int", "float"):
            return num(p["v"], t)
        if t == "str":
            return p["v"]
        if t == "list":
            return [self.decode(x) for x in p["items"]]
        if t == "tuple":
            return tuple(self.decode(x) for x in p["items"])
        if t == "numlike":
            import decimal
            return decimal.Decimal(p["v"])
        if t == "dict":
            return {"a": 1}
        if t == "set":
            return {1}
        if t == "rating":
            ref = p["ref"]
            if ref in self.objs:
                o = self.objs[ref]
            else:
                m = self.scratch_model(p["v"])
                name = p["nm"] if p["nt"] == "str" else None
                o = m.rating(pnum(p["mu"]), pnum(p["sigma"]), name)
                if p["uid"]:
                    o.id = p["uid"]
                self.objs[ref] = o
                return o
            if self.follow:
                o.mu = pnum(p["mu"])
                o.sigma = pnum(p["sigma"])
            return o
        return Opaque()

    def opt(self, p):
        return ABSENT if p["t"] == "none" else self.decode(p)

    def perform(self, ev):
        """Perform the call described by ev (its outcome fields are ignored) and record it."""
        op = ev["op"]
        g, r = ev.get("group", ""), ev.get("role", "")
        s = self.sess
        if op == "reset":
            self.reset()
            return None
        aux = self.decode(ev["aux"]) if ev.get("aux", {"t": "none"})["t"] != "none" else None
        if op == "rate":
            mh = self.model_for(ev["model"])
            return s.rate(mh, self.decode(ev["teams"]), ranks=self.opt(ev["ranks"]), scores=self.opt(ev["scores"]),
                          tau=self.opt(ev["tau"]), limit_sigma=self.opt(ev["limit"]), group=g, role=r, aux=aux)
        if op in ("win", "draw", "rank"):
            mh = self.model_for(ev["model"])
            return s.predict(op, mh, self.decode(ev["teams"]), group=g, role=r, aux=aux)
        if op == "rating":
            mh = self.model_for(ev["model"])
            out = s.new_rating(mh, mu=self.opt(ev["mu"]), sigma=self.opt(ev["sigma"]), name=self.opt(ev["name"]), group=g, role=r)
            self.bind_result(ev, out)
            return out
        if op == "create":
            mh = self.model_for(ev["model"])
            out = s.create_rating(mh, self.decode(ev["arg"]), name=self.opt(ev["name"]), group=g, role=r)
            self.bind_result(ev, out)
            return out
        if op == "deepcopy":
            out = s.deepcopy(self.decode(ev["arg"]), group=g, role=r)
            self.bind_result(ev, out)
            return out
        if op == "cmp":
            return s.compare(ev["cmpop"], self.decode(ev["a"]), self.decode(ev["b"]), group=g, role=r)
        if op == "ordinal":
            return s.ordinal(self.decode(ev["a"]), z=self.opt(ev["z"]), group=g, role=r)
        if op == "assign":
            o = self.decode(ev["a"])
            return s.assign(o, mu=pnum(ev["a_after"]["mu"]), sigma=pnum(ev["a_after"]["sigma"]))
        if op == "new_model":
            a, kw = ev["args"], {}
            for k in ("mu", "sigma", "beta", "kappa", "tau"):
                if a[k]["t"] != "none":
                    kw[k] = self.decode(a[k])
            if a["limit"]["t"] != "none":
                kw["limit_sigma"] = self.decode(a["limit"])
            mh = s.model(ev["kind"], gamma=a["gamma"]["v"] if a["gamma"]["t"] != "none" else "default", _mid=ev["model"]["id"], **kw)
            self.models[mh.id] = mh
            return mh
        if op == "setattr":
            mh = self.model_for(ev["model"])
            attr, v = ev["attr"], ev["value"]
            if attr == "gamma":
                return s.set_model_attr(mh, "gamma", s.gamma_callable(mh, v))
            if attr == "limit":
                return s.set_model_attr(mh, "limit_sigma", v == "T")
            return s.set_model_attr(mh, attr, pnum(v))
        if op == "sorted":
            return s.sort(self.decode(ev["arg"]), group=g, role=r)
        if op == "hash":
            return s.hash(self.decode(ev["a"]), group=g, role=r)
        raise ValueError("unknown op " + op)

    def bind_result(self, ev, out):
        """Objects created by a scripted call become the script's refs (so later scripted calls can name them)."""
        want = ev.get("out", {}).get("value")
        if not want or out is None:
            return

        def walk(p, x):
            if p.get("t") == "rating" and p.get("ref"):
                self.objs.setdefault(p["ref"], x)
            elif p.get("t") in ("list", "tuple") and isinstance(x, (list, tuple)) and len(x) == len(p["items"]):
                for q, y in zip(p["items"], x):
                    walk(q, y)

        walk(want, out)

    def run(self, events):
        for ev in events:
            self.perform(ev)
        return self.sess.events
