"""./check <property-id> [--tier quick|thorough] [--replay FILE]

Exit 0: the property held on everything explored.
Exit 1: a violation was found; prints  VIOLATION property=<id> replay=<path>.
Exit 2: the machinery failed (TLC error, ill-formed trace, vacuous coverage) - never a VIOLATION line.
"""
import argparse
import collections
import hashlib
import json
import os
import random
import shutil
import sys
import time
import traceback

HERE = os.path.dirname(os.path.abspath(__file__))
sys.path.insert(0, HERE)

import tlc  # noqa: E402
from tlc import MachineryError  # noqa: E402

VERIF = os.path.dirname(HERE)
DEFAULT_SEED = 20260926


def load_known():
    p = os.path.join(VERIF, "known_findings.json")
    if not os.path.exists(p):
        return {"findings": [], "fixed": []}
    return json.load(open(p))


def finding_matches(f, prop, ev, fails):
    """A known finding names a property, a clause prefix and a signature of the failing call."""
    if f["property"] != prop:
        return False
    if not any(x.startswith(f["clause"]) for x in fails):
        return False
    sig = f.get("signature", {})
    for k, v in sig.items():
        cur = ev
        for part in k.split("."):
            cur = cur.get(part) if isinstance(cur, dict) else None
        if cur != v:
            return False
    return True


def trim_event(ev, limit=1600):
    """A compact, readable rendering of an event for evidence samples."""

    def pv(p):
        if not isinstance(p, dict) or "t" not in p:
            return p
        t = p["t"]
        if t in ("list", "tuple"):
            return [pv(x) for x in p["items"]]
        if t == "rating":
            return "%s(%s,%s%s)" % (p["v"], p["mu"], p["sigma"], "," + p["nm"] if p["nt"] == "str" else "")
        if t == "none":
            return None
        if t in ("int", "float", "bool", "str"):
            return p["v"] if t != "bool" else (p["v"] == "1")
        return "<%s>" % t

    out = {"op": ev["op"]}
    if "model" in ev:
        m = ev["model"]
        out["model"] = {k: m[k] for k in ("kind", "beta", "kappa", "tau", "limit", "gamma")}
    for k in ("teams", "ranks", "scores", "tau", "limit", "arg", "a", "b", "cmpop", "mu", "sigma", "name", "z"):
        if k in ev:
            v = pv(ev[k])
            if v is not None:
                out[k] = v
    if "out" in ev:
        out["out"] = pv(ev["out"]["value"]) if ev["out"]["kind"] == "ok" else "raise " + ev["out"]["exc"]
    if ev.get("group"):
        out["group"], out["role"] = ev["group"], ev["role"]
    s = json.dumps(out)
    if len(s) > limit:
        out = {"op": ev["op"], "truncated": s[:limit]}
    return out


class Run:
    """Accumulates what a check explored."""

    def __init__(self, prop, tier, seed):
        self.prop = prop
        self.tier = tier
        self.seed = seed
        self.rng = random.Random(seed)
        self.wd = tlc.workdir(prop)
        self.results = []  # (event, fails, classes, trace events)
        self.states = 0
        self.transitions = 0
        self.traces = 0
        self.evaluations = 0
        self.mc_runs = []
        self.notes = []
        self.samples = []
        self.exhaustive = False
        self.class_counts = collections.Counter()
        self.violations = []  # (event, fails, trace)
        self.spec_violations = []
        self.assumptions = []
        self.stage_info = []

    def sub_rng(self, tag):
        return random.Random("%s/%s/%s" % (self.seed, self.prop, tag))

    def add_trace_results(self, events, res, stage):
        """res from tlc.validate."""
        traces = {}
        for ev in events:
            traces.setdefault(ev["tid"], []).append(ev)
        self.states += res["states"]
        self.transitions += res["transitions"]
        self.traces += len(traces)
        n = 0
        violated = set()      # traces in which a clause of this property has already failed
        for ev, fails, cls in res["results"]:
            n += 1
            self.class_counts.update(cls)
            self.results.append((ev, fails, cls))
            mine = [f for f in fails if f.startswith({"stages": "S", "extras": "X"}.get(self.prop, self.prop) + ".")]
            if mine:
                self.violations.append((ev, mine, traces[ev["tid"]]))
                violated.add(ev["tid"])
            bind = [f for f in fails if f.startswith("bind.")]
            # an ill-formed trace is a failure of the machinery - unless the library has already been seen to break the
            # property earlier in the same trace (a list it reordered, an object it changed): what the driver then records
            # from the damaged objects is a consequence of that violation, which is what gets reported
            if bind and ev["tid"] not in violated:
                raise MachineryError("ill-formed trace (stage %s): %s on %s" % (stage, bind, json.dumps(trim_event(ev))[:800]))
        self.evaluations += n
        self.stage_info.append({"stage": stage, "events": n, "tlc_wall_s": round(res["wall_s"], 1), "shards": res["shards"]})

    def require_classes(self, needed, stage):
        """Deferred: checked by plans.flush() once the queued executions have been validated."""
        if not hasattr(self, "deferred_classes"):
            self.deferred_classes = []
        self.deferred_classes.append((list(needed), stage))


def write_replay(run, ev, fails, trace):
    rdir = os.path.join(VERIF, "replays")
    if os.environ.get("VERIF_EVIDENCE_DIR"):
        rdir = os.path.join(os.environ["VERIF_EVIDENCE_DIR"], "replays")
    os.makedirs(rdir, exist_ok=True)
    body = {"property": run.prop, "clauses": fails, "seed": run.seed, "tier": run.tier,
            "failing_event": trim_event(ev), "trace": trace}
    h = hashlib.sha1(json.dumps([fails, trim_event(ev)], sort_keys=True).encode()).hexdigest()[:12]
    path = os.path.join(rdir, "%s-%s.json" % (run.prop, h))
    with open(path, "w") as f:
        json.dump(body, f)
    return path


def write_evidence(run, plan_meta, wall, nviol):
    distinct = len({tuple(cls) for ev, fails, cls in run.results if "ok" in cls or any(c.startswith("raise") for c in cls)})
    if plan_meta.get("distinct_override") is not None:
        distinct = plan_meta["distinct_override"]
    samples = run.samples[:]
    step = max(1, len(run.results) // 6)
    for ev, fails, cls in run.results[::step][:6]:
        samples.append({"event": trim_event(ev), "classes": cls})
    cov = {
        "states": max(run.states, 0),
        "transitions": max(run.transitions, 0),
        "traces_validated_against_impl": run.traces,
        "samples": samples or [{"note": "no sample"}],
        "evaluations": run.evaluations,
        "distinct_nontrivial": distinct,
        "rule": plan_meta.get("rule", ""),
        # true only when everything this run explored was a completely enumerated finite space; the bounded instances that
        # were enumerated completely are flagged one by one in model_checking_runs
        "exhaustive": bool(run.exhaustive) and not getattr(run, "sampled", False),
        "exhaustive_instances": [r["instance"] for r in run.mc_runs if r.get("exhaustive")],
        "checker_cmd": "java -cp tla2tools.jar:CommunityModules-deps.jar tlc2.TLC (spec/*.tla, overrides HPReal.class, VerifIO.class)",
        "trusted_base": ["TLC 1.8.0", "spec/HPReal.java on java.math.BigDecimal", "harness/project.py (projection)", "harness/record.py"],
        "class_counts": dict(sorted(run.class_counts.items())),
        "model_checking_runs": run.mc_runs,
        "stages": run.stage_info,
        "notes": run.notes,
    }
    ev = {
        "property_id": run.prop,
        "tier": run.tier,
        "seed": run.seed,
        "level": "model_checking",
        "coverage": cov,
        "assumptions": plan_meta.get("assumptions", []) + run.assumptions,
        "wall_s": round(wall, 2),
        "violations": nviol,
    }
    edir = os.environ.get("VERIF_EVIDENCE_DIR") or os.path.join(VERIF, "evidence")   # redirected only by harness/seeds.py
    if not run.prop.startswith("C"):
        edir = os.path.join(VERIF, "extra")         # checks beyond the listed properties keep their reports apart
    os.makedirs(edir, exist_ok=True)
    with open(os.path.join(edir, run.prop + ".json"), "w") as f:
        json.dump(ev, f, indent=1)


def main(argv=None):
    ap = argparse.ArgumentParser()
    ap.add_argument("prop")
    ap.add_argument("--tier", default=os.environ.get("VERIF_TIER", "quick"))
    ap.add_argument("--replay")
    ap.add_argument("--keep", action="store_true", help="keep the work directory")
    a = ap.parse_args(argv)
    tier = a.tier if a.tier in ("quick", "thorough") else "quick"
    try:
        seed = int(os.environ.get("VERIF_SEED", DEFAULT_SEED))
    except ValueError:
        seed = DEFAULT_SEED
    import plans

    if a.prop == "selftest":
        import selftest
        return selftest.main(tier, seed)
    if a.prop not in plans.PLANS:
        print("unknown property", a.prop)
        return 2
    t0 = time.time()
    run = Run(a.prop, tier, seed)
    rc = 0
    try:
        tlc.ensure_built()
        if a.replay:
            meta = plans.replay_file(run, a.replay)
        else:
            meta = plans.PLANS[a.prop](run)
        plans.flush(run)
        known = load_known()
        reported = 0
        seen_known = set()
        for ev, fails, trace in run.violations:
            kf = [f for f in known.get("findings", []) if finding_matches(f, a.prop, ev, fails)]
            if kf:
                for f in kf:
                    if f["id"] not in seen_known:
                        seen_known.add(f["id"])
                        print("KNOWN-FINDING: property=%s %s" % (a.prop, f["what"]))
                continue
            reported += 1
            if reported <= 5:
                path = write_replay(run, ev, fails, trace)
                print("VIOLATION property=%s replay=%s" % (a.prop, path))
                print("  clauses: %s" % ", ".join(fails[:6]))
                print("  event: %s" % json.dumps(trim_event(ev))[:1200])
        for sv in run.spec_violations:
            reported += 1
            print("VIOLATION property=%s replay=%s" % (a.prop, sv["path"]))
            print("  %s" % sv["what"])
        if reported:
            rc = 1
        if not a.replay:
            write_evidence(run, meta, time.time() - t0, reported)
        print("%s %s tier=%s seed=%d: %d evaluations, %d states, %d traces, %d violations, %.1fs" % (
            "OK" if rc == 0 else "FAIL", a.prop, tier, seed, run.evaluations, run.states, run.traces, reported, time.time() - t0))
    except MachineryError as ex:
        print("MACHINERY-FAILURE %s: %s" % (a.prop, str(ex)[:4000]))
        rc = 2
    except Exception:  # noqa: BLE001
        print("MACHINERY-FAILURE %s: unexpected error" % a.prop)
        traceback.print_exc()
        rc = 2
    finally:
        if not a.keep and rc != 2:
            shutil.rmtree(run.wd, ignore_errors=True)
    return rc


if __name__ == "__main__":
    sys.exit(main())
