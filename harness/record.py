"""Recorder: performs public calls on the real library and writes one event per call.

The event is written after the call returns or raises (the linearization point of a
sequential library is the call's return).  Nothing here computes an expected value: the
judgement is entirely in the TLA+ trace specification.
"""
import contextlib
import copy
import json
import math
import sys

from project import KINDS, Refs, encode, encode_model, fnum, leaf, load_models
import stages

ABSENT = object()  # argument not passed at all


def gamma_one(c, k, mu, sigma_squared, team, rank):
    return 1.0


def gamma_zero(c, k, mu, sigma_squared, team, rank):
    return 0.0


def gamma_big(c, k, mu, sigma_squared, team, rank):
    return 50.0


# the callback "must return a float or int": the same three, returning ints (every other model the session constructs)
def gamma_one_int(c, k, mu, sigma_squared, team, rank):
    return 1


def gamma_zero_int(c, k, mu, sigma_squared, team, rank):
    return 0


def gamma_big_int(c, k, mu, sigma_squared, team, rank):
    return 50


def make_gamma_probe(beta):
    def gamma_probe(c, k, mu, sigma_squared, team, rank):
        return (
            0.01
            + 1e-3 * c / beta
            + 0.01 * k
            + 1e-3 * abs(mu) / beta
            + 1e-4 * sigma_squared / (beta * beta)
            + 0.1 * len(team)
            + 0.05 * rank
        )

    return gamma_probe


class ModelHandle:
    def __init__(self, mid, kind, obj, gname):
        self.id = mid
        self.kind = kind
        self.m = obj
        self.gname = gname


class Session:
    """A run of recorded calls.  Events accumulate in self.events (list of dict)."""

    def __init__(self):
        self.classes = load_models()
        self.refs = Refs()
        self.events = []
        self.tid = 0
        self.next_mid = 0
        self.gamma_names = {}
        for k, cls in self.classes.items():
            mod = sys.modules[cls.__module__]
            self.gamma_names[id(mod._gamma)] = "default"
        for f, n in [(gamma_one, "one"), (gamma_zero, "zero"), (gamma_big, "big"),
                     (gamma_one_int, "one"), (gamma_zero_int, "zero"), (gamma_big_int, "big")]:
            self.gamma_names[id(f)] = n
        self._keep = []

    # ---------------------------------------------------------------- plumbing
    def reset(self):
        """Start a new trace: forget the heap (fresh allocation numbers)."""
        self.tid += 1
        self.refs.reset()
        self.events.append({"op": "reset", "tid": self.tid})

    def emit(self, ev):
        ev["tid"] = self.tid
        ev.setdefault("group", "")
        ev.setdefault("role", "")
        ev["gprop"] = ev["group"].split(":")[0] if ev["group"] else ""
        ev.setdefault("aux", leaf("none"))
        self.events.append(ev)
        return ev

    def enc(self, x):
        return encode(x, self.refs)

    def model(self, kind, gamma="default", model_cls=None, _mid=None, **params):
        """Construct a model.  gamma: name of a callback.  _mid: the id a script gives the object."""
        cls = model_cls or self.classes[kind]
        kw = dict(params)
        if gamma != "default":
            if gamma == "probe":
                beta = kw.get("beta", 25.0 / 6.0)
                g = make_gamma_probe(beta)
                self.gamma_names[id(g)] = "probe"
                self._keep.append(g)
            else:
                ints = self.next_mid % 2 == 1
                g = {"one": gamma_one_int if ints else gamma_one, "zero": gamma_zero_int if ints else gamma_zero,
                     "big": gamma_big_int if ints else gamma_big}[gamma]
            kw["gamma"] = g
        obj = cls(**kw)
        self.next_mid += 1
        mh = ModelHandle(self.next_mid if _mid is None else _mid, kind, obj, gamma)
        mh.constructed = self.enc_model(mh)   # projection at construction time
        # model0 is the configuration the OWNER chose: where an argument was given and the object holds another value
        # (Sem!Construct reports that at the new_model event), later calls are still judged by what was asked for
        for a in ("mu", "sigma", "beta", "kappa", "tau"):
            v = params.get(a)
            if isinstance(v, (int, float)) and not isinstance(v, bool):
                try:
                    same = float(mh.constructed[a]) == float(v)
                except (TypeError, ValueError):
                    same = False
                if not same:
                    mh.constructed[a] = fnum(float(v))
        if isinstance(params.get("limit_sigma"), bool):
            mh.constructed["limit"] = "T" if params["limit_sigma"] else "F"
        if gamma != "default":
            mh.constructed["gamma"] = gamma
        # the constructor call is an operation of the system like any other: what was asked for (absent = none),
        # and what the object holds at return; OpenSkill!NewModel / Sem!Construct say what it must hold
        args = {a: (self.enc(params[a]) if a in params else leaf("none")) for a in ("mu", "sigma", "beta", "kappa", "tau")}
        args["limit"] = self.enc(params["limit_sigma"]) if "limit_sigma" in params else leaf("none")
        args["gamma"] = leaf("str", gamma) if gamma != "default" else leaf("none")
        self.emit({"op": "new_model", "kind": kind, "args": args, "model": self.enc_model(mh),
                   "out": {"kind": "ok", "exc": "", "value": leaf("none")}})
        return mh

    def enc_model(self, mh):
        return encode_model(mh.m, mh.id, mh.kind, self.gamma_names)

    def gamma_callable(self, mh, name):
        """The callback with that name, for assigning to a live model (the probe weighs by the model's current beta)."""
        if name == "default":
            return sys.modules[self.classes[mh.kind].__module__]._gamma
        if name == "probe":
            g = make_gamma_probe(mh.m.beta)
            self.gamma_names[id(g)] = "probe"
            self._keep.append(g)
            return g
        ints = mh.id % 2 == 1
        return {"one": gamma_one_int if ints else gamma_one, "zero": gamma_zero_int if ints else gamma_zero,
                "big": gamma_big_int if ints else gamma_big}[name]

    @staticmethod
    def outcome_of(fn):
        try:
            return ("ok", fn(), "")
        except BaseException as exc:  # noqa: BLE001 - the class is what is recorded
            if isinstance(exc, (KeyboardInterrupt, SystemExit)):
                raise
            # a subclass of TypeError / ValueError is a TypeError / ValueError (C13 speaks of the exception, not its name)
            name = "TypeError" if isinstance(exc, TypeError) else "ValueError" if isinstance(exc, ValueError) else type(exc).__name__
            return ("raise", None, name)

    # ---------------------------------------------------------------- operations
    def rate(self, mh, teams, ranks=ABSENT, scores=ABSENT, tau=ABSENT, limit_sigma=ABSENT, group="", role="", aux=None, positional=False):
        """positional=True passes (teams, ranks, scores, tau, limit_sigma) by position, in the documented order."""
        kw = {}
        if ranks is not ABSENT:
            kw["ranks"] = ranks
        if scores is not ABSENT:
            kw["scores"] = scores
        if tau is not ABSENT:
            kw["tau"] = tau
        if limit_sigma is not ABSENT:
            kw["limit_sigma"] = limit_sigma
        ev = {
            "op": "rate",
            "model0": dict(mh.constructed, id=mh.id),
            "model": self.enc_model(mh),
            "teams": self.enc(teams),
            "ranks": self.enc(kw.get("ranks")),
            "scores": self.enc(kw.get("scores")),
            "tau": self.enc(kw.get("tau")),
            "limit": self.enc(kw.get("limit_sigma")),
        }
        # the library gets its own copy of the ranks / scores lists: whether it modifies them is observed on the copy,
        # and a driver that reuses its list for sibling calls is not contaminated by a library that does
        for k in ("ranks", "scores"):
            if isinstance(kw.get(k), list):
                kw[k] = list(kw[k])
        stage_log = []
        with (stages.observe(mh.m, stage_log) if getattr(self, "stages_on", False) else contextlib.nullcontext()):
            if positional:
                kind, val, exc = self.outcome_of(lambda: mh.m.rate(teams, kw.get("ranks"), kw.get("scores"), kw.get("tau"), kw.get("limit_sigma")))
            else:
                kind, val, exc = self.outcome_of(lambda: mh.m.rate(teams, **kw))
        if getattr(self, "stages_on", False):
            ev["stages"] = stages.to_records(stage_log, teams)
        ev["out"] = {"kind": kind, "exc": exc, "value": self.enc(val)}
        ev["after"] = self.enc(teams)
        ev["ranks_after"] = self.enc(kw.get("ranks"))
        ev["scores_after"] = self.enc(kw.get("scores"))
        ev["model_after"] = self.enc_model(mh)
        ev["group"], ev["role"] = group, role
        if aux is not None:
            ev["aux"] = self.enc(aux)
        self.emit(ev)
        return val

    def set_model_attr(self, mh, name, value):
        """The caller assigns a public attribute of a model object: from now on that is the model's configuration."""
        ev = {"op": "setattr", "model0": dict(mh.constructed, id=mh.id), "model": self.enc_model(mh)}
        setattr(mh.m, name, value)
        mh.constructed = self.enc_model(mh)
        key = {"limit_sigma": "limit"}.get(name, name)
        ev["attr"] = key
        ev["value"] = str(mh.constructed.get(key, ""))
        ev["model_after"] = self.enc_model(mh)
        ev["out"] = {"kind": "ok", "exc": "", "value": self.enc(None)}
        self.emit(ev)

    def predict(self, op, mh, teams, group="", role="", aux=None):
        fn = {"win": "predict_win", "draw": "predict_draw", "rank": "predict_rank"}[op]
        ev = {"op": op, "model0": dict(mh.constructed, id=mh.id), "model": self.enc_model(mh), "teams": self.enc(teams)}
        stage_log = []
        with (stages.observe(mh.m, stage_log) if getattr(self, "stages_on", False) else contextlib.nullcontext()):
            kind, val, exc = self.outcome_of(lambda: getattr(mh.m, fn)(teams))
        if getattr(self, "stages_on", False):
            ev["stages"] = stages.to_predict_records(stage_log, teams)
        ev["out"] = {"kind": kind, "exc": exc, "value": self.enc(val)}
        ev["after"] = self.enc(teams)
        ev["model_after"] = self.enc_model(mh)
        ev["group"], ev["role"] = group, role
        if aux is not None:
            ev["aux"] = self.enc(aux)
        self.emit(ev)
        # the caller owns what a prediction returns: scribbling on it (here: to per cent) must not reach any later call
        if isinstance(val, list):
            ret = list(val)
            for i, x in enumerate(val):
                if isinstance(x, tuple) and len(x) == 2 and isinstance(x[1], float):
                    val[i] = (x[0], x[1] * 100.0)
                elif isinstance(x, float):
                    val[i] = x * 100.0
            return ret
        return val

    def new_rating(self, mh, mu=ABSENT, sigma=ABSENT, name=ABSENT, group="", role=""):
        kw = {}
        if mu is not ABSENT:
            kw["mu"] = mu
        if sigma is not ABSENT:
            kw["sigma"] = sigma
        if name is not ABSENT:
            kw["name"] = name
        ev = {
            "op": "rating",
            "model": self.enc_model(mh),
            "mu": self.enc(kw.get("mu")),
            "sigma": self.enc(kw.get("sigma")),
            "name": self.enc(kw.get("name")),
        }
        kind, val, exc = self.outcome_of(lambda: mh.m.rating(**kw))
        ev["out"] = {"kind": kind, "exc": exc, "value": self.enc(val)}
        ev["model_after"] = self.enc_model(mh)
        ev["group"], ev["role"] = group, role
        self.emit(ev)
        return val

    def create_rating(self, mh, arg, name=ABSENT, group="", role=""):
        kw = {}
        if name is not ABSENT:
            kw["name"] = name
        ev = {"op": "create", "model": self.enc_model(mh), "arg": self.enc(arg), "name": self.enc(kw.get("name"))}
        kind, val, exc = self.outcome_of(lambda: mh.m.create_rating(arg, **kw))
        ev["out"] = {"kind": kind, "exc": exc, "value": self.enc(val)}
        ev["arg_after"] = self.enc(arg)
        ev["model_after"] = self.enc_model(mh)
        ev["group"], ev["role"] = group, role
        self.emit(ev)
        return val

    def deepcopy(self, x, group="", role="", look=None):
        # looking at an object is not free of effects if it builds parts of itself on first use (an id made when first
        # read): every other copy is therefore taken BEFORE the recorder has looked at the original - as a program would
        # that builds a player and stores a copy without ever printing it - and the original is projected afterwards
        self._dc = getattr(self, "_dc", 0) + 1
        if look == "after" or (look is None and self._dc % 2 == 0):
            kind, val, exc = self.outcome_of(lambda: copy.deepcopy(x))
            ev = {"op": "deepcopy", "arg": self.enc(x)}
        else:
            ev = {"op": "deepcopy", "arg": self.enc(x)}
            kind, val, exc = self.outcome_of(lambda: copy.deepcopy(x))
        ev["out"] = {"kind": kind, "exc": exc, "value": self.enc(val)}
        ev["arg_after"] = self.enc(x)
        ev["group"], ev["role"] = group, role
        self.emit(ev)
        return val

    CMP = {
        "lt": lambda a, b: a < b,
        "le": lambda a, b: a <= b,
        "gt": lambda a, b: a > b,
        "ge": lambda a, b: a >= b,
        "eq": lambda a, b: a == b,
        "ne": lambda a, b: a != b,
    }

    def compare(self, cmpop, a, b, group="", role=""):
        def ordinal_of(x):
            try:
                return x.ordinal()
            except BaseException:  # noqa: BLE001
                return None

        ev = {"op": "cmp", "cmpop": cmpop, "a": self.enc(a), "b": self.enc(b),
              "oa": self.enc(ordinal_of(a)), "ob": self.enc(ordinal_of(b))}
        kind, val, exc = self.outcome_of(lambda: self.CMP[cmpop](a, b))
        ev["out"] = {"kind": kind, "exc": exc, "value": self.enc(val)}
        ev["a_after"] = self.enc(a)
        ev["b_after"] = self.enc(b)
        ev["group"], ev["role"] = group, role
        self.emit(ev)
        return val

    def ordinal(self, a, z=ABSENT, group="", role=""):
        kw = {}
        if z is not ABSENT:
            kw["z"] = z
        ev = {"op": "ordinal", "a": self.enc(a), "z": self.enc(kw.get("z"))}
        kind, val, exc = self.outcome_of(lambda: a.ordinal(**kw))
        ev["out"] = {"kind": kind, "exc": exc, "value": self.enc(val)}
        ev["a_after"] = self.enc(a)
        ev["group"], ev["role"] = group, role
        self.emit(ev)
        return val

    def assign(self, a, mu=ABSENT, sigma=ABSENT):
        """The caller sets public attributes of a rating object."""
        ev = {"op": "assign", "a": self.enc(a)}
        if mu is not ABSENT:
            a.mu = mu
        if sigma is not ABSENT:
            a.sigma = sigma
        ev["a_after"] = self.enc(a)
        ev["out"] = {"kind": "ok", "exc": "", "value": self.enc(None)}
        self.emit(ev)

    def holds(self, a, was):
        """Observation without a call: what the object holds now, beside what it held when the caller last saw it (`was`,
        a projection taken then).  Between two calls nothing but the caller's own assignments changes a rating."""
        ev = {"op": "holds", "a": self.enc(a), "was": was, "out": {"kind": "ok", "exc": "", "value": self.enc(None)}}
        self.emit(ev)

    def sort(self, xs, group="", role=""):
        ev = {"op": "sorted", "arg": self.enc(xs),
              "ords": self.enc([x.ordinal() for x in xs])}
        kind, val, exc = self.outcome_of(lambda: sorted(xs))
        ev["out"] = {"kind": kind, "exc": exc, "value": self.enc(val)}
        ev["group"], ev["role"] = group, role
        self.emit(ev)
        return val

    def hash(self, a, group="", role=""):
        ev = {"op": "hash", "a": self.enc(a)}
        kind, val, exc = self.outcome_of(lambda: hash(a))
        ev["out"] = {"kind": kind, "exc": exc, "value": self.enc(str(val) if val is not None else None)}
        ev["group"], ev["role"] = group, role
        self.emit(ev)
        return val

    def kernel(self, name, x, t=None):
        """One call of an exported Gaussian correction function."""
        import openskill.models.weng_lin.common as wl

        fn = getattr(wl, name)
        ev = {"op": "kernel", "name": name, "x": self.enc(float(x)), "t": self.enc(float(t) if t is not None else 1e-5)}
        kind, val, exc = self.outcome_of((lambda: fn(x, t)) if t is not None else (lambda: fn(x)))
        ev["out"] = {"kind": kind, "exc": exc, "value": self.enc(val)}
        self.emit(ev)
        return val

    def api(self, mh, what, group="", role=""):
        """Describe the operations a class exposes (names, parameter names/kinds/defaults)."""
        import inspect

        cls = type(mh.m) if what == "model" else type(mh.m.rating())

        def describe(name, fn):
            try:
                sig = inspect.signature(fn)
            except (TypeError, ValueError):
                return name + "(?)"
            ps = []
            for p in sig.parameters.values():
                d = ""
                if p.default is not inspect.Parameter.empty:
                    d = "=" + (getattr(p.default, "__name__", None) or repr(p.default))
                ps.append("%s:%s%s" % (p.name, p.kind.name, d))
            return "%s(%s)" % (name, ",".join(ps))

        names = sorted(n for n in dir(cls) if not n.startswith("_") and callable(getattr(cls, n)) and not isinstance(getattr(cls, n), type))
        dunders = sorted(n for n in vars(cls) if n.startswith("__") and callable(vars(cls)[n]) and n not in ("__init__",))
        desc = [describe("__init__", cls.__init__)] + [describe(n, getattr(cls, n)) for n in names] + [describe(n, vars(cls)[n]) for n in dunders]
        inst = mh.m if what == "model" else mh.m.rating()
        names_ = set(getattr(inst, "__dict__", {}))
        for c in type(inst).__mro__:                      # classes with __slots__ have no instance __dict__
            sl = c.__dict__.get("__slots__", ())
            names_ |= set([sl] if isinstance(sl, str) else sl)
        fields = sorted(a for a in names_ if not a.startswith("__") and hasattr(inst, a) and not isinstance(getattr(inst, a), type))
        desc.append("fields:" + ",".join(fields))
        ev = {"op": "api", "what": what, "kind": mh.kind,
              "out": {"kind": "ok", "exc": "", "value": self.enc(desc)}}
        ev["group"], ev["role"] = group, role
        self.emit(ev)
        return desc

    # ---------------------------------------------------------------- output
    def write(self, path):
        with open(path, "w") as f:
            for ev in self.events:
                f.write(json.dumps(ev, separators=(",", ":")))
                f.write("\n")
        return len(self.events)
