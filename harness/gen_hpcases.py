"""Generate reference values for the HPReal self-test with mpmath (60 digits).  Run with python3-vt."""
import json, sys, random
import mpmath as mp

mp.mp.dps = 80

def s(x):
    return mp.nstr(x, 60, strip_zeros=True, min_fixed=-5, max_fixed=5).replace("e", "E")

def phi(x):
    return mp.erfc(-x / mp.sqrt(2)) / 2

def main(out):
    rnd = random.Random(12345)
    cases = []
    def add(op, want, a, b=None, k=None):
        c = {"op": op, "a": a, "want": s(want)}
        if b is not None: c["b"] = b
        if k is not None: c["k"] = k
        cases.append(c)
    pts = ["0", "1", "-1", "0.5", "2.5", "-7.25", "1e-05", "3.3333333333333335", "25.0", "8.333333333333334",
           "1e-300", "-1e-300", "1e300", "123456.789", "-0.0001", "4.166666666666667", "1E-20", "37.5", "-452.25"]
    for a in pts:
        for b in pts:
            x, y = mp.mpf(a), mp.mpf(b)
            add("add", x + y, a, b); add("sub", x - y, a, b); add("mul", x * y, a, b)
            if y != 0: add("div", x / y, a, b)
            add("max", max(x, y), a, b); add("min", min(x, y), a, b)
        x = mp.mpf(a)
        add("neg", -x, a); add("abs", abs(x), a)
        if x >= 0: add("sqrt", mp.sqrt(x), a)
    xs = [i / 8 for i in range(-320, 321)] + [-452.0, -300.5, -100.125, -40.0, -38.4, -37.5, 37.5, 38.0, 1e-8, -1e-8, 1e-300,
          2.9999, 3.0, 3.0001, 4.2426, 4.2427, -4.2426, -4.2427] + [rnd.uniform(-45, 45) for _ in range(300)]
    for xf in xs:
        a = repr(float(xf)); x = mp.mpf(a)
        add("phi", phi(x), a)
        add("pdf", mp.npdf(x), a)
    for xf in [i / 4 for i in range(-2800, 2801, 7)] + [-101250.0, 226.0, 709.0, -745.0, 1e-10, -1e-10] + [rnd.uniform(-800, 800) for _ in range(200)]:
        a = repr(float(xf)); add("exp", mp.e ** mp.mpf(a), a)
    for n in list(range(1, 130)):
        p = (1 + mp.mpf(1) / n) / 2
        a = s(p)
        if n == 1: continue
        add("phiinv", mp.sqrt(2) * mp.erfinv(2 * mp.mpf(a) - 1), a)
    for pf in [0.6, 0.75, 0.9, 0.99, 0.999999, 0.4, 0.25, 0.01, 1e-10, 1e-100]:
        a = repr(pf); add("phiinv", mp.findroot(lambda x: phi(x) - mp.mpf(a), -mp.sqrt(-2 * mp.log(mp.mpf(a))) if pf < 0.5 else 0.5), a)
    for a in ["1", "3.3333333333333335", "-25.0", "1e-05"]:
        for k in [-10, -1, 0, 1, 10, 60]:
            add("scale2", mp.mpf(a) * mp.mpf(2) ** k, a, k=k)
    json.dump(cases, open(out, "w"))
    print(len(cases), "cases")

if __name__ == "__main__":
    main(sys.argv[1])
