"""Real threads on one shared model object, pre-empted at every access to a model attribute.

The model is instrumented by subclassing *in the harness* (no change to the library): reads and writes
of the seven construction attributes are logged and are yield points of a deterministic scheduler.
Each execution yields
  (a) a totally ordered log of begin / read / write / end events (validated by TraceThreads.tla against
      Threads.tla), and
  (b) the threads' results as ordinary recorded calls, grouped with the same calls run one after another
      on a fresh model (validated by Trace.tla: bit-identical, relation "same").
"""
import threading

from project import STD_MODEL_ATTRS, fnum
from record import ABSENT, Session


class Scheduler:
    """Admits one thread at a time.  plan = [(thread index, accesses or None), ...] segments; None = until the thread ends.
    plan None = free running (no pre-emption control, only logging)."""

    def __init__(self, nthreads, plan):
        self.cond = threading.Condition()
        self.plan = list(plan) if plan is not None else None
        self.cur = 0
        self.left = self.plan[0][1] if self.plan else None
        self.finished = [False] * nthreads
        self.seq = 0
        self.log = []

    def _advance(self):
        self.cur += 1
        self.left = self.plan[self.cur][1] if self.cur < len(self.plan) else None

    def _skip(self):
        while self.cur < len(self.plan) and self.finished[self.plan[self.cur][0]]:
            self._advance()

    def yield_point(self, th):
        """Called before every access of thread th to the shared model; returns when th may perform it."""
        if self.plan is None:
            return
        with self.cond:
            while True:
                self._skip()
                if self.cur >= len(self.plan):
                    # plan exhausted: the lowest unfinished thread runs to completion
                    if th == min(i for i, f in enumerate(self.finished) if not f):
                        return
                elif self.plan[self.cur][0] == th:
                    if self.left is None:
                        return
                    if self.left > 0:
                        self.left -= 1
                        return
                    self._advance()          # this segment is used up: hand over
                    self.cond.notify_all()
                    continue
                self.cond.wait(timeout=20)

    def record(self, th, ev, attr="", value="", arg=""):
        with self.cond:
            self.seq += 1
            self.log.append({"th": th, "ev": ev, "attr": attr, "value": value, "arg": arg, "seq": self.seq})

    def finish(self, th):
        with self.cond:
            self.finished[th] = True
            if self.plan is not None:
                self._skip()
            self.cond.notify_all()


ATTR_NAME = {"limit_sigma": "limit"}
_tls = threading.local()


def attr_value(name, v, gamma_names):
    if name == "gamma":
        return gamma_names.get(id(v), "?other")
    if name == "limit_sigma":
        return "T" if v is True else "F" if v is False else "?" + repr(v)
    return fnum(v)


def instrument(cls, gamma_names):
    """Subclass of a model class whose accesses to the construction attributes are logged yield points."""

    class Instrumented(cls):
        def __getattribute__(self, name):
            if name in STD_MODEL_ATTRS:
                sch = getattr(_tls, "sched", None)
                if sch is not None:
                    th = _tls.th
                    sch.yield_point(th)
                    v = object.__getattribute__(self, name)
                    sch.record(th, "read", ATTR_NAME.get(name, name), attr_value(name, v, gamma_names))
                    return v
            return object.__getattribute__(self, name)

        def __setattr__(self, name, value):
            sch = getattr(_tls, "sched", None)
            if sch is not None:
                th = _tls.th
                sch.yield_point(th)
                sch.record(th, "write", ATTR_NAME.get(name, name), attr_value(name, value, gamma_names) if name in STD_MODEL_ATTRS else repr(value)[:40])
            object.__setattr__(self, name, value)

        def __delattr__(self, name):
            sch = getattr(_tls, "sched", None)
            if sch is not None:
                sch.record(_tls.th, "write", ATTR_NAME.get(name, name), "<deleted>")
            object.__delattr__(self, name)

    Instrumented.__name__ = cls.__name__
    Instrumented.__qualname__ = cls.__qualname__
    return Instrumented


class SharedList(list):
    """The outcome list several callers pass (SharedArgs.tla): a plain list to the library (isinstance list, same values), whose
    every mutating operation is logged as an `argwrite` event and is a yield point - the design has no action that writes it."""

    def _w(self, what):
        sch = getattr(_tls, "sched", None)
        if sch is not None:
            th = _tls.th
            sch.yield_point(th)
            sch.record(th, "argwrite", "outcome_list", what)


def _logged(name):
    base = getattr(list, name)

    def method(self, *a, **k):
        self._w(name)
        return base(self, *a, **k)
    method.__name__ = name
    return method


for _n in ("__setitem__", "__delitem__", "__iadd__", "__imul__", "append", "extend", "insert", "pop", "remove", "clear", "sort", "reverse"):
    setattr(SharedList, _n, _logged(_n))


def _lib_tracer(sch, th, counter=None, lines=False):
    """sys.settrace hook: every Python function call inside the library is a yield point (no event is logged);
    with lines=True every executed LINE of library code is one (a switch inside a loop that calls nothing)."""
    def tracer(frame, event, arg):
        if "/openskill/" in frame.f_code.co_filename:
            if event == "call" or (lines and event == "line"):
                if counter is not None:
                    counter[0] += 1
                sch.yield_point(th)
            return tracer if lines else None
        return None
    return tracer


def run_execution(sess, xid, kind, params, gname, calls, plan, thread_log, fine=False, counter=None, base_first=True):
    """One execution: the calls run sequentially on a fresh model (base), then concurrently, one thread each,
    on one shared instrumented model (same).  calls = [dict(op, vals, kw)].  Appends the thread events to thread_log."""
    from drivers import make_teams

    sess.reset()
    gids = ["C14:thr%d.%d" % (xid, ci) for ci in range(len(calls))]
    if base_first:       # (the cold-start stage runs the sequential calls in another process: nothing precedes the threads here)
        fresh = sess.model(kind, gamma=gname, **params)
        for ci, c in enumerate(calls):
            teams = make_teams(fresh, c["vals"])
            if c["op"] == "rate":
                sess.rate(fresh, teams, group=gids[ci], role="base", **c["kw"])
            else:
                sess.predict(c["op"], fresh, teams, group=gids[ci], role="base")
    icls = instrument(sess.classes[kind], sess.gamma_names)
    shared = sess.model(kind, gamma=gname, model_cls=icls, **params)
    constructed = {ATTR_NAME.get(a, a): attr_value(a, object.__getattribute__(shared.m, a), sess.gamma_names) for a in STD_MODEL_ATTRS}
    sch = Scheduler(len(calls), plan)
    results = [None] * len(calls)
    teams_all = [make_teams(shared, c["vals"]) for c in calls]
    pre = [sess.enc(t) for t in teams_all]
    model_before = sess.enc_model(shared)
    errors = []

    passed = [{k: (list(v) if isinstance(v, list) else v) for k, v in c["kw"].items()} for c in calls]   # the library's own copies
    # callers on disjoint ratings may well pass the SAME outcome list object (a constant of the program): "share" names the
    # call whose list this call passes as well (same selector, equal values)
    for th, c in enumerate(calls):
        o = c.get("share")
        if o is not None:
            for sel in ("ranks", "scores"):
                if sel in passed[th] and sel in passed[o] and passed[th][sel] == passed[o][sel]:
                    if not isinstance(passed[o][sel], SharedList):
                        passed[o][sel] = SharedList(passed[o][sel])
                    passed[th][sel] = passed[o][sel]

    def body(th):
        c = calls[th]
        _tls.sched, _tls.th = sch, th
        if fine:
            import sys as _sys
            _sys.settrace(_lib_tracer(sch, th, counter if th == 0 else None, lines=(fine == "line")))
        try:
            sch.yield_point(th)
            sch.record(th, "begin", arg=str(c["kw"].get("limit_sigma", "none")))
            m = shared.m
            try:
                if c["op"] == "rate":
                    out = ("ok", m.rate(teams_all[th], **passed[th]), "")
                else:
                    fn = {"win": "predict_win", "draw": "predict_draw", "rank": "predict_rank"}[c["op"]]
                    out = ("ok", getattr(m, fn)(teams_all[th]), "")
            except Exception as exc:  # noqa: BLE001
                out = ("raise", None, "TypeError" if isinstance(exc, TypeError) else "ValueError" if isinstance(exc, ValueError) else type(exc).__name__)
            results[th] = out
            sch.record(th, "end")
        except BaseException as exc:  # noqa: BLE001
            errors.append(repr(exc))
        finally:
            if fine:
                import sys as _sys
                _sys.settrace(None)
            _tls.sched = None
            sch.finish(th)

    threads = [threading.Thread(target=body, args=(i,), name="caller-%d" % i) for i in range(len(calls))]
    for t in threads:
        t.start()
    for t in threads:
        t.join(timeout=60)
    if errors or any(t.is_alive() for t in threads):
        raise RuntimeError("scheduler failure: %s" % errors)
    # the threads' calls as ordinary events (written by the harness after the join; the projection was taken
    # before the threads started and after they ended)
    model_after = sess.enc_model(shared)
    for th, c in enumerate(calls):
        kind_, val, exc = results[th]
        kw = c["kw"]
        if c["op"] == "rate":
            ev = {"op": "rate", "model0": dict(shared.constructed, id=shared.id), "model": model_before, "teams": pre[th],
                  "ranks": sess.enc(kw.get("ranks")), "scores": sess.enc(kw.get("scores")), "tau": sess.enc(kw.get("tau")),
                  "limit": sess.enc(kw.get("limit_sigma")),
                  "ranks_after": sess.enc(passed[th].get("ranks")), "scores_after": sess.enc(passed[th].get("scores"))}
        else:
            ev = {"op": c["op"], "model0": dict(shared.constructed, id=shared.id), "model": model_before, "teams": pre[th]}
        ev["out"] = {"kind": kind_, "exc": exc, "value": sess.enc(val)}
        ev["after"] = sess.enc(teams_all[th])
        ev["model_after"] = model_after
        ev["group"], ev["role"] = gids[th], "same"
        # keep each group contiguous: insert right after its base event
        sess.emit(ev)
    thread_log.append({"x": xid, "ev": "reset", "th": 0, "attr": "", "value": "", "arg": "", "constructed": constructed})
    for e in sorted(sch.log, key=lambda e: e["seq"]):
        thread_log.append(dict(e, x=xid))
    return len(sch.log)


def regroup(events):
    """Order the events of each trace so that every group is contiguous (base first), keeping ungrouped events first."""
    out = []
    cur = []

    def flush():
        if not cur:
            return
        head = [e for e in cur if e["op"] == "reset" or not e.get("group")]
        out.extend(head)
        seen = []
        for e in cur:
            g = e.get("group")
            if e["op"] != "reset" and g and g not in seen:
                seen.append(g)
        for g in seen:
            grp = [e for e in cur if e["op"] != "reset" and e.get("group") == g]
            out.extend(sorted(grp, key=lambda e: 0 if e["role"] == "base" else 1))
        cur.clear()

    for e in events:
        if e["op"] == "reset":
            flush()
        cur.append(e)
    flush()
    return out
