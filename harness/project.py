"""Projection of Python values and library state into the tagged encoding of PyVal.tla.

One encoder, used in both directions (recording real executions, replaying TLC-generated
calls).  Only public attributes are read.  All numbers are strings: TLC integers are 32
bit and JSON readers mangle large values.
"""
import decimal
import fractions
import math
import os
import sys

# The library under test is /repo's working tree.  VERIF_REPO overrides it only for running the checks against a
# seeded change applied to a scratch worktree (harness/seeds.py); registered checks never set it.
sys.path.insert(0, os.environ.get("VERIF_REPO", "/repo"))

KINDS = ["PL", "BTF", "BTP", "TMF", "TMP"]


def load_models():
    from openskill.models import (
        BradleyTerryFull,
        BradleyTerryPart,
        PlackettLuce,
        ThurstoneMostellerFull,
        ThurstoneMostellerPart,
    )

    return {
        "PL": PlackettLuce,
        "BTF": BradleyTerryFull,
        "BTP": BradleyTerryPart,
        "TMF": ThurstoneMostellerFull,
        "TMP": ThurstoneMostellerPart,
    }


def rating_kind(obj):
    """Kind tag of a rating object, or None."""
    n = type(obj).__name__
    return {
        "PlackettLuceRating": "PL",
        "BradleyTerryFullRating": "BTF",
        "BradleyTerryPartRating": "BTP",
        "ThurstoneMostellerFullRating": "TMF",
        "ThurstoneMostellerPartRating": "TMP",
    }.get(n)


def fnum(x):
    """Numeral of a Python number: repr for finite floats, tokens otherwise."""
    if isinstance(x, bool):
        return "1" if x else "0"
    if isinstance(x, int):
        return str(x)
    if isinstance(x, float):
        if math.isnan(x):
            return "nan"
        if math.isinf(x):
            return "inf" if x > 0 else "-inf"
        return repr(x)
    return "?" + type(x).__name__


BLANK = {"t": "", "v": "", "items": [], "ref": 0, "uid": "", "nt": "", "nm": "", "mu": "", "sigma": ""}


def leaf(t, v=""):
    d = dict(BLANK)
    d["t"] = t
    d["v"] = v
    return d


class Refs:
    """Allocation-order references for rating objects (identity based)."""

    def __init__(self):
        self.by_id = {}
        self.keep = []

    def ref(self, obj):
        k = id(obj)
        if k not in self.by_id:
            self.by_id[k] = len(self.by_id) + 1
            self.keep.append(obj)  # keep alive so ids are not reused
        return self.by_id[k]

    def reset(self):
        self.by_id.clear()
        self.keep.clear()


def encode(x, refs, depth=0):
    """Python value -> PyVal record."""
    if x is None:
        return leaf("none")
    if isinstance(x, bool):
        return leaf("bool", "1" if x else "0")
    if isinstance(x, int):
        return leaf("int", str(x))
    if isinstance(x, float):
        return leaf("float", fnum(x))
    if isinstance(x, str):
        return leaf("str", x)
    if isinstance(x, (decimal.Decimal, fractions.Fraction)):
        return leaf("numlike", fnum(float(x)))      # a number-like object that is neither int nor float
    if isinstance(x, complex):
        return leaf("numlike", fnum(x.real))
    k = rating_kind(x)
    if k is not None:
        d = leaf("rating", k)
        d["ref"] = refs.ref(x)
        d["uid"] = x.id if isinstance(getattr(x, "id", None), str) else "?" + repr(getattr(x, "id", None))
        nm = getattr(x, "name", None)
        d["nt"] = "none" if nm is None else ("str" if isinstance(nm, str) else "other")
        d["nm"] = "" if nm is None else str(nm)
        d["mu"] = fnum(getattr(x, "mu", None))
        d["sigma"] = fnum(getattr(x, "sigma", None))
        return d
    if isinstance(x, (list, tuple)) and depth < 6:
        d = leaf("list" if isinstance(x, list) else "tuple")
        d["items"] = [encode(y, refs, depth + 1) for y in x]
        return d
    if isinstance(x, dict):
        return leaf("dict")
    if isinstance(x, (set, frozenset)):
        return leaf("set")
    return leaf("obj", type(x).__name__)


STD_MODEL_ATTRS = ["mu", "sigma", "beta", "kappa", "gamma", "tau", "limit_sigma"]


def encode_model(m, mid, kind, gamma_names):
    """Model object -> record.  gamma_names: {id(callable): name}."""
    d = {"id": mid, "kind": kind}
    for a in ["mu", "sigma", "beta", "kappa", "tau"]:
        d[a] = fnum(getattr(m, a, None))
    ls = getattr(m, "limit_sigma", None)
    d["limit"] = "T" if ls is True else "F" if ls is False else "?" + repr(ls)
    g = getattr(m, "gamma", None)
    d["gamma"] = gamma_names.get(id(g), "?other")
    extra = []
    d0 = getattr(m, "__dict__", {})
    for a in sorted(d0):
        if a in STD_MODEL_ATTRS:
            continue
        v = d0[a]
        if isinstance(v, type) and a == v.__name__:
            continue  # the rating class container, e.g. self.PlackettLuceRating
        extra.append("%s=%r" % (a, v))
    d["extra"] = ";".join(extra)
    return d
