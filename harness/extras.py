"""The rest of the surface (spec/Extras.tla): text forms, team-rating objects, module-level helpers, the registry,
create_rating's error classes.  Observations are `extra` events [what, a, b, c, out]; the judgement is in Extras!ExtraFails.
A helper that no longer exists (renamed, removed by a refactoring) yields no observation - never an alarm."""
import importlib
import itertools
import sys

from project import KINDS, leaf

MODNAME = {"PL": "plackett_luce", "BTF": "bradley_terry_full", "BTP": "bradley_terry_part",
           "TMF": "thurstone_mosteller_full", "TMP": "thurstone_mosteller_part"}


def _get(mod, name):
    try:
        m = importlib.import_module(mod)
    except Exception:  # noqa: BLE001
        return None
    return getattr(m, name, None)


def extra(sess, what, fn, a=None, b=None, c=None):
    """Perform fn() and record it.  a, b, c are the Python values the rule is stated over."""
    ev = {"op": "extra", "what": what, "a": sess.enc(a), "b": sess.enc(b), "c": sess.enc(c)}
    kind, val, exc = sess.outcome_of(fn)
    ev["out"] = {"kind": kind, "exc": exc, "value": sess.enc(val)}
    sess.emit(ev)
    return val


def kind_leaf(k):
    return leaf("str", k)


def shown(x):
    """The numeral Python shows for a number inside an f-string."""
    return format(x)


def text_forms(sess, rng):
    for k in KINDS:
        sess.reset()
        for (mmu, msg) in [(25.0, 25.0 / 3.0), (30, 10), (1500.0, 350.5), (-2.5, 1e-5)]:
            mh = sess.model(k, mu=mmu, sigma=msg) if (mmu, msg) != (25.0, 25.0 / 3.0) else sess.model(k)
            m = mh.m
            extra(sess, "repr_model", lambda: repr(m), a=KindTag(k), b=[shown(m.mu), shown(m.sigma)])
            extra(sess, "str_model", lambda: str(m), a=KindTag(k), b=[shown(m.mu), shown(m.sigma)])
            for (mu, sg, nm) in [(25.0, 8.333333333333334, None), (0, 1, "bob"), (-3.5, 1e-300, ""), (1e16, 2.5e-7, "P 1"),
                                 (rng.uniform(-50, 50), rng.uniform(0, 9), rng.choice([None, "x y", "ann"])), (float("inf"), -0.0, None)]:
                r = m.rating(mu, sg, nm) if nm is not None else m.rating(mu, sg)
                extra(sess, "repr_rating", lambda: repr(r), a=RatingShown(r, sess))
                extra(sess, "str_rating", lambda: str(r), a=RatingShown(r, sess))
        # team ratings
        tr_cls = _get("openskill.models.weng_lin." + MODNAME[k], type(mh.m).__name__ + "TeamRating")
        if tr_cls is None:
            continue
        team = [mh.m.rating(20.0, 3.0), mh.m.rating(22, 4)]
        other = [mh.m.rating(20.0, 3.0), mh.m.rating(22, 4)]
        for (mu, s2, rank) in [(42.0, 25.0, 0), (42, 25, 1), (-7.5, 1e-8, 3), (rng.uniform(-90, 90), rng.uniform(0, 500), 2)]:
            try:
                t = tr_cls(mu, s2, team, rank)
            except Exception:  # noqa: BLE001 - another constructor signature: no observation
                break
            extra(sess, "team_fields", lambda: [t.mu, t.sigma_squared, t.rank], a=KindTag(k), b=[mu, s2, rank])
            extra(sess, "repr_team", lambda: repr(t), a=KindTag(k), b=[shown(t.mu), shown(t.sigma_squared)])
            extra(sess, "str_team", lambda: str(t), a=KindTag(k), b=[shown(t.mu), shown(t.sigma_squared), shown(t.rank)])
            for (mu2, s22, team2, rank2) in [(mu, s2, team, rank), (float(mu), float(s2), other, rank), (mu, s2, team, rank + 1),
                                             (mu + 1, s2, team, rank), (mu, s2 + 0.5, team, rank), (mu, s2, team[:1], rank)]:
                u = tr_cls(mu2, s22, team2, rank2)
                tag = lambda tm: [[shown(p.mu), shown(p.sigma)] for p in tm]  # noqa: E731 - members compare by (mu, sigma)
                extra(sess, "team_eq", lambda: t == u, a=KindTag(k), b=[mu, s2, rank, tag(team)], c=[mu2, s22, rank2, tag(team2)])
            u = tr_cls(float(mu), float(s2), team, rank)
            extra(sess, "team_hash_equal", lambda: hash(t) == hash(u), a=KindTag(k))


class KindTag(str):
    """A model kind, encoded as a str leaf."""


def RatingShown(r, sess):
    """The rating's projection with mu / sigma as Python shows them (the projection's numerals are already repr)."""
    return r


def helpers(sess, rng):
    sess.reset()
    um = _get("openskill.models.common", "_unary_minus")
    asort = _get("openskill.models.common", "_arg_sort")
    rdata = _get("openskill.models.common", "_rank_data")
    tr = _get("openskill.models.common", "_matrix_transpose")
    unwind = _get("openskill.models.weng_lin.common", "_unwind")
    ladder = _get("openskill.models.weng_lin.common", "_ladder_pairs")
    pinv = _get("openskill.models.weng_lin.common", "phi_major_inverse")
    pdf = _get("openskill.models.weng_lin.common", "phi_minor")
    vecs = [list(v) for n in range(0, 5) for v in itertools.product([1, 2.0, -1], repeat=n)]
    vecs += [[rng.choice([0.5, 0.5, 0.25, 3, -2, 1e-9, 0.1 + 0.2, 0.3]) for _ in range(rng.randint(2, 8))] for _ in range(150)]
    vecs += [[0.3333333333333333, 0.33333333333333337, 0.3333333333333333], [-0.0, 0.0, 0], [1e16, 1e16 + 2, 1e16], [2 ** 53, 2 ** 53 + 1, float(2 ** 53)]]
    for v in vecs:
        if asort:
            extra(sess, "arg_sort", lambda: asort(list(v)), a=v)
        if rdata and v:
            extra(sess, "rank_data", lambda: rdata(list(v)), a=v)
        if unwind and v:
            objs = list(range(100, 100 + len(v)))
            extra(sess, "unwind", lambda: [list(x) for x in unwind(list(v), list(objs))], a=v, b=objs)

            def roundtrip():
                s1, t1 = unwind(list(v), list(objs))
                s2, _t2 = unwind(list(t1), list(s1))
                return list(s2)
            extra(sess, "unwind_roundtrip", roundtrip, a=v, b=objs)
    if um:
        for x in [0, 1, -2.5, 0.0, -0.0, 1e300, 5e-324, 7, True]:
            extra(sess, "unary_minus", lambda: um(x), a=x)
    if tr:
        for m in [[[1, 2, 3], [4, 5, 6]], [[1], [2], [3]], [[1, 2], [3, 4], [5, 6]], [[7]], [[1, 2, 3], [4, 5]], []]:
            extra(sess, "transpose", lambda: tr([list(r) for r in m]), a=m)
    if ladder:
        for n in range(1, 9):       # the empty list is not a ladder
            xs = list(range(1, n + 1))
            extra(sess, "ladder_pairs", lambda: ladder(list(xs)), a=xs)
    if pdf:
        for x in [0.0, -0.0, 1.0, -1.0, 0.5, 3.0, -8.2, 12.5, 37.0, -37.5] + [rng.uniform(-38, 38) for _ in range(100)] + [rng.gauss(0, 1) for _ in range(100)]:
            extra(sess, "phi_minor", lambda: pdf(x), a=x)
    if pinv:
        ps = [0.5, 0.75, 0.25, 0.975, 1e-3, 1 - 1e-3, 1e-10, 1 - 1e-10, 1e-300, 5e-324, 1 - 2 ** -53, 0.5 + 2 ** -53, 0.9999999999999999]
        ps += [(1 + 1 / n) / 2 for n in range(2, 130)]          # the draw margins of 2..129 players
        ps += [rng.random() for _ in range(150)] + [10 ** rng.uniform(-300, -1) for _ in range(100)]
        for p in ps:
            extra(sess, "phi_major_inverse", lambda: pinv(p), a=p)
    for k in KINDS:
        g = _get("openskill.models.weng_lin." + MODNAME[k], "_gamma")
        if not g:
            continue
        for _ in range(12):
            c, s2 = rng.uniform(0.1, 500), rng.uniform(1e-8, 900)
            extra(sess, "gamma_default", lambda: g(c, rng.randint(2, 8), rng.uniform(-90, 90), s2, [], rng.randint(0, 7)), a=KindTag(k), b=[c, s2])


def registry(sess):
    sess.reset()
    models = _get("openskill.models", "MODELS")
    if models is not None:
        names = {"PlackettLuce": "PL", "BradleyTerryFull": "BTF", "BradleyTerryPart": "BTP",
                 "ThurstoneMostellerFull": "TMF", "ThurstoneMostellerPart": "TMP"}
        extra(sess, "models_registry", lambda: [names.get(getattr(m, "__name__", "?"), getattr(m, "__name__", "?")) for m in models])


class _Thing:
    pass


def create_errors(sess, rng):
    for k in KINDS:
        sess.reset()
        mh = sess.model(k)
        own = mh.m.rating(20.0, 5.0)
        args = [[25.0, 8.0], [0, 0], [True, 2.5], [-3, -0.0], own, (25.0, 8.0), [25.0], [25.0, 8.0, 1.0], [], None, 25.0, 7, "ab", "abc",
                {"mu": 1, "sigma": 2}, {1, 2}, [None, 8.0], [25.0, "8"], ["a", "b"], [[25.0], 8.0], [25.0, None], [own, own], _Thing(),
                [1e400, 1.0], [float("nan"), 1.0]]
        for x in args:
            extra(sess, "create_error", lambda: type(mh.m).create_rating(x), a=x)
            extra(sess, "create_error", lambda: mh.m.create_rating(x, name="n"), a=x)


def extras_campaign(sess, rng):
    text_forms(sess, rng)
    helpers(sess, rng)
    registry(sess)
    create_errors(sess, rng)
